package filecheck

import (
	"fmt"

	txfile "github.com/elastic/go-txfile"

	"verif/core"
)

// C10 shape generators: states the random programs rarely build.
//   - free lists spanning several meta pages (> 126 disjoint regions with 1KiB pages)
//   - free regions of exactly 254/255/256 and more pages (encoding switch)
//   - overwrite mappings with more than one meta page (> 72 entries)
//   - files grown far past the initially mapped 64KiB
func runShapeCase(c *core.Case) *core.Result {
	return runShapeCaseFor(c, Monitors{Property: "C10", ReopenID: true, Content: true, Partition: true, Coverage: true}, true)
}

// runShapeCaseFor runs the shape generators under the monitors of another property.
func runShapeCaseFor(c *core.Case, mon Monitors, withOverflowShape bool) *core.Result {
	res := &core.Result{}
	r := c.R
	cfg := Config{PageSize: 1024, DiskCap: 8 << 20, InitMetaArea: []uint32{0, 8, 64}[r.Intn(3)], SyncMode: r.Intn(3)}
	if r.Chance(1, 3) {
		cfg.MaxPages = 2048
	}
	w := NewWorld(cfg, mon, r, res)
	w.TraceOn = c.Verbose
	shape := r.Intn(5)
	if !withOverflowShape {
		shape = r.Intn(4)
	}
	names := []string{"fragmented-freelist", "big-regions", "large-wal-map", "mixed", "full-file-overflow-area"}
	if shape == 4 {
		return runOverflowShape(c, res, names[shape])
	}
	done := func() *core.Result {
		if w.F != nil && w.Tx == nil {
			f := w.F
			w.guard("File.Close(final)", func() { f.Close() })
		}
		res.Key = fmt.Sprintf("shape-%s-%s", names[shape], w.Key())
		res.Nontrivial = w.Commits >= 2 && w.Reopens >= 1
		res.Add("shape_"+names[shape], 1)
		res.Add("reopens", int64(w.Reopens))
		res.Add("commits", int64(w.Commits))
		if c.Idx%31 == 3 {
			res.Sample = map[string]interface{}{"case": c.Idx, "shape": names[shape], "config": cfg, "commits": w.Commits, "reopens": w.Reopens}
		}
		return res
	}
	if !w.Open() {
		return done()
	}
	begin := func() bool { return w.Begin(txfile.TxOptions{WALLimit: 1000}) }
	commit := func() bool { return w.End(OCommit) }
	snapStats := func() {
		s := w.F.VerifSnapshot()
		res.Max("freelist_meta_pages", int64(len(regionSet(s.FreelistPages))))
		res.Max("wal_meta_pages", int64(len(regionSet(s.WALPages))))
		res.Max("wal_entries", int64(len(s.WALMapping)))
		res.Max("data_free_regions", int64(len(s.DataFree)))
		for _, rg := range s.DataFree {
			res.Max("largest_free_region", int64(rg.Count))
			if rg.Count >= 255 {
				res.Add("regions_ge_255_seen", 1)
			}
		}
	}
	reopen := func() bool {
		snapStats()
		if !w.Reopen() {
			return false
		}
		snapStats()
		return true
	}

	// base: a large block of consecutive pages
	n := 300 + r.Intn(500)
	if !begin() || !w.Alloc(n, 1) || !commit() {
		return done()
	}
	ids := w.Committed.sortedIDs()

	if shape == 0 || shape == 3 {
		// free every other page (disjoint single page regions), in a few transactions
		step := 2 + r.Intn(2)
		batch := 0
		if !begin() {
			return done()
		}
		for i := 1; i < len(ids); i += step {
			if !w.Free(ids[i]) {
				return done()
			}
			batch++
			if batch%97 == 0 {
				if !commit() || !begin() {
					return done()
				}
			}
		}
		if !commit() || !reopen() {
			return done()
		}
	}
	if shape == 1 || shape == 3 {
		// free consecutive runs of critical lengths
		live := w.Committed.sortedIDs()
		for _, run := range []int{254, 255, 256, 3, 300} {
			// find a run of consecutive live ids
			start := -1
			for i := 0; i+run <= len(live); i++ {
				if live[i+run-1]-live[i] == txfile.PageID(run-1) {
					start = i
					break
				}
			}
			if start < 0 {
				continue
			}
			if !begin() {
				return done()
			}
			for i := start; i < start+run; i++ {
				if live[i] == w.txRoot {
					continue
				}
				if !w.Free(live[i]) {
					return done()
				}
			}
			if !commit() || !reopen() {
				return done()
			}
			live = w.Committed.sortedIDs()
			res.Add("critical_runs_freed", 1)
		}
	}
	if shape == 2 || shape == 3 {
		// overwrite many committed pages in one transaction: large overwrite mapping
		live := w.Committed.sortedIDs()
		k := 80 + r.Intn(140)
		if k > len(live) {
			k = len(live)
		}
		if !begin() {
			return done()
		}
		for i := 0; i < k; i++ {
			if !w.Write(live[(i*7)%len(live)], i%3, 0) {
				return done()
			}
		}
		if !commit() || !reopen() {
			return done()
		}
		// overwrite some of them again (writes go back to the original pages)
		if !begin() {
			return done()
		}
		for i := 0; i < k/2; i++ {
			if !w.Write(live[(i*7)%len(live)], 0, 0) {
				return done()
			}
		}
		if !commit() || !reopen() {
			return done()
		}
	}
	// follow-up random history on the shaped file, with reopens
	p := DefaultGen()
	p.Txs = 5 + r.Intn(10)
	p.PReopen = 30
	p.MaxAllocN = 40
	w.Run(GenProgram(r, p))
	if !w.failed {
		reopen()
	}
	return done()
}

// runOverflowShape: a bounded file is filled completely; transactions with the
// overflow area enabled (what the queue uses for ACKs on a full file) then free
// and overwrite pages, so that free-list / overwrite-map pages live past the
// maximum size; then close and reopen.
func runOverflowShape(c *core.Case, res *core.Result, name string) *core.Result {
	r := c.R
	ps := []uint32{1024, 4096}[r.Intn(2)]
	minPages := 64 * 1024 / int(ps)
	cfg := Config{PageSize: ps, MaxPages: minPages + []int{0, 0, 3, 16}[r.Intn(4)], DiskCap: 2 << 20, InitMetaArea: []uint32{0, 0, 2}[r.Intn(3)], SyncMode: r.Intn(3)}
	w := NewWorld(cfg, Monitors{Property: "C10", ReopenID: true, Content: true, Partition: true}, r, res)
	w.TraceOn = c.Verbose
	done := func() *core.Result {
		if w.F != nil && w.Tx == nil {
			f := w.F
			w.guard("File.Close(final)", func() { f.Close() })
		}
		res.Key = fmt.Sprintf("shape-%s-%s", name, w.Key())
		res.Nontrivial = w.Commits >= 2 && w.Reopens >= 1
		res.Add("shape_"+name, 1)
		res.Add("reopens", int64(w.Reopens))
		res.Add("commits", int64(w.Commits))
		return res
	}
	if !w.Open() {
		return done()
	}
	// fill the file completely
	for round := 0; round < 400; round++ {
		before := len(w.Committed.Pages)
		if !w.Begin(txfile.TxOptions{}) || !w.Alloc(1+r.Intn(8), 1) || !w.End(OCommit) {
			return done()
		}
		if len(w.Committed.Pages) == before {
			break
		}
	}
	// Use up the rest of the file until no page at all is free, the last pages
	// going to the meta area (an overwrite needs a write-ahead page and a mapping
	// page): the header then has a meta area but no free list. Close and reopen
	// in that state.
	for round := 0; round < 60; round++ {
		s := w.F.VerifSnapshot()
		end := s.DataEnd
		if s.MetaEnd > end {
			end = s.MetaEnd
		}
		room := 0
		if uint(end) < s.MaxPages {
			room = int(s.MaxPages) - int(end)
		}
		avail := int(s.DataAvail) + room
		if avail == 0 && s.MetaAvail == 0 {
			res.Add("states_without_any_free_page", 1)
			if s.FreelistRoot == 0 && s.MetaTotal > 0 {
				res.Add("states_with_meta_area_but_no_free_list", 1)
			}
			break
		}
		if !w.Begin(txfile.TxOptions{WALLimit: 1000}) {
			return done()
		}
		if avail > 2 {
			if !w.Alloc(avail-2, 1) {
				return done()
			}
		} else if cw := w.candWrite(); len(cw) > 0 {
			if !w.Write(cw[(round*7)%len(cw)], 0, 0) {
				return done()
			}
		}
		before := w.Commits
		if !w.End(OCommit) {
			return done()
		}
		if w.Commits == before && avail <= 2 {
			break // no room for another overwrite
		}
	}
	if !w.Reopen() {
		return done()
	}
	for round := 0; round < 3+r.Intn(4); round++ {
		// cleanup style transaction: frees a few pages, overwrites some, overflow area enabled
		if !w.Begin(txfile.TxOptions{EnableOverflowArea: true, WALLimit: uint([]int{0, 3, 1000}[r.Intn(3)])}) {
			return done()
		}
		for i := 0; i < 1+r.Intn(3); i++ {
			if cf := w.candFree(); len(cf) > 2 {
				if !w.Free(cf[r.Intn(len(cf))]) {
					return done()
				}
			}
		}
		for i := 0; i < r.Intn(4); i++ {
			if cw := w.candWrite(); len(cw) > 0 {
				if !w.Write(cw[r.Intn(len(cw))], 0, 0) {
					return done()
				}
			}
		}
		if !w.End(OCommit) {
			return done()
		}
		s := w.F.VerifSnapshot()
		if uint(s.MetaEnd) > s.MaxPages {
			res.Add("states_with_overflow_pages_in_use", 1)
		}
		if r.Chance(1, 2) {
			// an aborted overflow-enabled transaction right before the reopen: it
			// overwrites pages and flushes them (write-ahead pages come from the
			// overflow area on the full file), then it is rolled back
			if !w.Begin(txfile.TxOptions{EnableOverflowArea: true, WALLimit: 1000}) {
				return done()
			}
			cw := w.candWrite()
			for i := 0; i < 2+r.Intn(6) && i < len(cw); i++ {
				if !w.Write(cw[(i*5+round)%len(cw)], 0, 0) {
					return done()
				}
			}
			if !w.FlushTx() || !w.End(ORollback) {
				return done()
			}
			res.Add("aborted_overflow_transactions_before_reopen", 1)
		}
		if !w.Reopen() {
			return done()
		}
		// refill what was freed, so the file is full again
		if !w.Begin(txfile.TxOptions{}) || !w.Alloc(1+r.Intn(3), 1) || !w.End(OCommit) {
			return done()
		}
	}
	w.Reopen()
	return done()
}
