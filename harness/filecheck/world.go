// Package filecheck drives the txfile.File layer against a sequential reference
// model on the simulated disk and hosts the monitors for C01-C04, C07-C11,
// C14-C16.
package filecheck

import (
	"bytes"
	"encoding/binary"
	"fmt"
	"os"
	"runtime/debug"
	"sort"
	"strings"
	"sync"

	txfile "github.com/elastic/go-txfile"
	"github.com/elastic/go-txfile/txerr"

	"verif/core"
	"verif/simdisk"
)

// Config is one point of the configuration lattice.
type Config struct {
	PageSize     uint32 `json:"page_size"`
	MaxPages     int    `json:"max_pages"` // 0 = unbounded
	MaxSizeOdd   int    `json:"max_size_odd"`
	InitMetaArea uint32 `json:"init_meta"`
	Prealloc     bool   `json:"prealloc"`
	SyncMode     int    `json:"sync_mode"`
	DiskCap      int    `json:"disk_cap"`
}

func (c Config) MaxSize() uint64 {
	if c.MaxPages == 0 {
		return 0
	}
	return uint64(c.MaxPages)*uint64(c.PageSize) + uint64(c.MaxSizeOdd)
}

func (c Config) Options() txfile.Options {
	// InitMetaArea only matters when the file is created, but every Open
	// validates it against MaxSize; after a shrink of the limit (resize on open,
	// limit taken from a crash image) the option set must stay a valid one
	initMeta := c.InitMetaArea
	if c.MaxPages > 0 && int(initMeta) >= c.MaxPages-2 {
		initMeta = 2
	}
	return txfile.Options{
		MaxSize:      c.MaxSize(),
		PageSize:     c.PageSize,
		InitMetaArea: initMeta,
		Prealloc:     c.Prealloc,
		Sync:         txfile.SyncMode(c.SyncMode),
	}
}

// OpKind enumerates abstract operations of a file program.
type OpKind int

const (
	OBegin OpKind = iota
	OAlloc
	OWrite
	ORead
	OFree
	OFlushPage
	OFlushTx
	OCheckpoint
	OSetRoot
	OCommit
	ORollback
	OClose
	OReopen
	OBeginRO      // read-only transaction scanning everything
	OMark         // marker in the trace (twin runs)
	OProbe        // capacity probe (bounded files)
	OReopenResize // close, reopen with FlagUpdMaxSize (A selects the new size)
	OFreeTop      // free the A highest page ids
	OFreeNew      // free the (A mod n)-th page (ascending ids) of the pages allocated and not yet freed/written in this transaction
	numOpKinds
)

var opNames = [...]string{"begin", "alloc", "write", "read", "free", "flushpage", "flushtx", "checkpoint", "setroot", "commit", "rollback", "close", "reopen", "beginro", "mark", "probe", "reopen-resize", "freetop", "freenew"}

func (k OpKind) String() string { return opNames[k] }

// Op is an abstract operation. Selectors (A) are resolved against the sorted
// candidate list at execution time (index = A mod len).
type Op struct {
	K OpKind `json:"k"`
	A int    `json:"a,omitempty"`
	B int    `json:"b,omitempty"`
	C int    `json:"c,omitempty"`
}

func (o Op) String() string { return fmt.Sprintf("%s(%d,%d,%d)", o.K, o.A, o.B, o.C) }

// PContent is the model of a page its contents.
type PContent struct {
	Data    []byte
	Defined bool
}

func (p *PContent) clone() *PContent {
	if p == nil {
		return nil
	}
	return &PContent{Data: append([]byte(nil), p.Data...), Defined: p.Defined}
}

// State is a committed model state.
type State struct {
	Txid  uint64
	Root  txfile.PageID
	Pages map[txfile.PageID]*PContent
}

func (s *State) clone() *State {
	n := &State{Txid: s.Txid, Root: s.Root, Pages: make(map[txfile.PageID]*PContent, len(s.Pages))}
	for id, p := range s.Pages {
		n.Pages[id] = p // contents are immutable once committed (copy on write in tx)
	}
	return n
}

func (s *State) sortedIDs() []txfile.PageID {
	ids := make([]txfile.PageID, 0, len(s.Pages))
	for id := range s.Pages {
		ids = append(ids, id)
	}
	sort.Slice(ids, func(i, j int) bool { return ids[i] < ids[j] })
	return ids
}

type txPage struct {
	id      txfile.PageID
	page    *txfile.Page
	isNew   bool // allocated in this transaction
	dirty   bool
	flushed bool
	freed   bool
	content *PContent // nil: no in-tx view (new page never written/loaded)
	loaded  bool
}

// Monitors selects which oracles are active.
type Monitors struct {
	Content   bool // C03
	Ownership bool // C04
	AbortID   bool // C07 same-instance identity
	ReopenID  bool // C10 snapshot identity across reopen
	Conserve  bool // C11 conservation equation + stats
	LockIdle  bool // C09 lock leak
	Partition bool // C04/C11 partition check at quiescent points (disjointness, bounds)
	Coverage  bool // additionally: no unowned page, meta area total adds up
	Property  string
}

// statsObserver is a thread-safe txfile.Observer capturing the last stats.
type statsObserver struct {
	mu     sync.Mutex
	last   txfile.FileStats
	opens  int
	begins int
	closes int
	lastTx txfile.TxStats
}

func (o *statsObserver) OnOpen(s txfile.FileStats) {
	o.mu.Lock()
	o.last, o.opens = s, o.opens+1
	o.mu.Unlock()
}
func (o *statsObserver) OnTxBegin(readonly bool) { o.mu.Lock(); o.begins++; o.mu.Unlock() }
func (o *statsObserver) OnTxClose(s txfile.FileStats, tx txfile.TxStats) {
	o.mu.Lock()
	o.last, o.closes, o.lastTx = s, o.closes+1, tx
	o.mu.Unlock()
}
func (o *statsObserver) Last() txfile.FileStats { o.mu.Lock(); defer o.mu.Unlock(); return o.last }

// World couples one txfile.File on a simulated disk with its model.
type World struct {
	Cfg  Config
	Mon  Monitors
	Disk *simdisk.Disk
	F    *txfile.File
	Obs  *statsObserver
	Hook txfile.VerifHook
	Res  *core.Result
	R    *core.Rand

	Committed  *State
	States     map[uint64]*State // by header txid (kept when KeepStates)
	KeepStates bool
	Markers    bool // write commit-begin/commit-ok markers into the op log

	// running write transaction
	Tx           *txfile.Tx
	txPages      map[txfile.PageID]*txPage
	txRoot       txfile.PageID
	txOrder      []txfile.PageID // allocation order
	txOverflow   bool
	snapBegin    *txfile.VerifSnapshot
	metaAtBegin  map[txfile.PageID]bool
	OverflowEver bool
	NoCoverage   bool // pages may legitimately be unowned (file shrunk below its extent)

	verCounter uint64
	Trace      []string
	TraceOn    bool
	traceHash  uint64

	Commits, Aborts, Reopens, Writes, Allocs, Frees, OOMs int
	failed                                                bool
	opened                                                bool   // the file has been opened at least once
	lenSeed                                               uint64 // derives default lengths of partial writes (set per op, equal in twin runs)
	KeepTrace                                             bool   // keep the complete trace in memory
	lastErr                                               error  // error behind the most recent operation-level violation
	LastTxid                                              uint64
	OpenOpts                                              func(o *txfile.Options) // tweak options on (re)open
}

// NewWorld creates the disk, the file and an empty model.
func NewWorld(cfg Config, mon Monitors, r *core.Rand, res *core.Result) *World {
	w := &World{Cfg: cfg, Mon: mon, R: r, Res: res, Obs: &statsObserver{}, States: map[uint64]*State{}}
	w.Disk = simdisk.New("simdisk", cfg.DiskCap)
	w.Committed = &State{Pages: map[txfile.PageID]*PContent{}}
	return w
}

func (w *World) prop() string { return w.Mon.Property }

// Failed reports whether a violation has been recorded.
func (w *World) Failed() bool { return w.failed }

func (w *World) tracef(format string, args ...interface{}) {
	s := fmt.Sprintf(format, args...)
	w.traceHash = w.traceHash*1099511628211 ^ core.Hash64([]byte(s))
	if w.TraceOn || w.KeepTrace || len(w.Trace) < 400 {
		w.Trace = append(w.Trace, s)
	}
	if w.TraceOn {
		fmt.Fprintln(os.Stderr, "TRACE", s)
	}
}

// Key returns a hash identifying the executed trace.
func (w *World) Key() string { return fmt.Sprintf("%016x", w.traceHash) }

func (w *World) tail(n int) []string {
	if len(w.Trace) <= n {
		return w.Trace
	}
	return w.Trace[len(w.Trace)-n:]
}

// violate records a violation (first one wins per rule).
func (w *World) violate(rule, sig, format string, args ...interface{}) {
	w.failed = true
	msg := fmt.Sprintf(format, args...)
	w.Res.Violate(w.prop(), rule, sig, msg, map[string]interface{}{
		"config": w.Cfg,
		"trace":  w.tail(60),
	})
	if w.Disk != nil && w.Disk.EnvLimitHit() {
		w.Res.MarkEnvLimit()
	}
}

// guard runs fn and converts a panic inside go-txfile into a violation.
func (w *World) guard(what string, fn func()) (panicked bool) {
	defer func() {
		if p := recover(); p != nil {
			stack := string(debug.Stack())
			panicked = true
			w.failed = true
			w.Res.Violate(w.prop(), "panic", "panic:"+core.PanicSig(p, stack),
				fmt.Sprintf("panic in %s: %v", what, p),
				map[string]interface{}{"config": w.Cfg, "trace": w.tail(60), "stack": core.TrimStack(stack)})
			if w.Disk != nil && w.Disk.EnvLimitHit() {
				w.Res.MarkEnvLimit()
			}
		}
	}()
	fn()
	return false
}

// Open opens (or creates) the file on the disk.
func (w *World) Open() bool {
	opts := w.Cfg.Options()
	opts.Observer = w.Obs
	if w.OpenOpts != nil {
		w.OpenOpts(&opts)
	}
	var err error
	w.Disk.Reopenable()
	prevTxid := w.LastTxid
	if w.Markers && w.opened {
		// an Open may run maintenance transactions (max size update): window of its own
		w.Disk.Marker("open-begin", int64(prevTxid))
	}
	if w.guard("Open", func() { w.F, err = txfile.VerifOpenWith(w.Disk, opts, w.Hook) }) {
		return false
	}
	if err != nil {
		w.violate("open-failed", "open-failed:"+kindOf(err), "open failed: %+v", err)
		return false
	}
	w.tracef("open maxsize=%d", opts.MaxSize)
	snap := w.F.VerifSnapshot()
	w.LastTxid = snap.Headers[snap.MetaActive].Txid
	if w.KeepStates {
		from := w.LastTxid
		if w.opened && prevTxid < w.LastTxid && w.LastTxid-prevTxid <= 4 {
			from = prevTxid + 1 // header txids written by open-time transactions: same contents
		}
		for t := from; t <= w.LastTxid; t++ {
			st := w.Committed.clone()
			st.Txid = t
			w.States[t] = st
		}
	}
	if w.Markers && w.opened {
		w.Disk.Marker("open-ok", int64(w.LastTxid))
	}
	w.opened = true
	w.checkQuiescent("open")
	return !w.failed
}

func kindOf(err error) string {
	if err == nil {
		return "nil"
	}
	k := txerr.GetKind(err)
	if k == nil {
		return "nokind"
	}
	return k.Error()
}

// allKinds lists all error kinds found in the error chain.
func allKinds(err error) string {
	var ks []string
	txerr.Iter(err, func(e error) bool {
		if ke, ok := e.(interface{ Kind() error }); ok && ke.Kind() != nil {
			ks = append(ks, ke.Kind().Error())
		}
		return true
	})
	return strings.Join(ks, ",")
}

// Stamp creates self-identifying page contents.
func Stamp(id txfile.PageID, ver uint64, n int) []byte {
	b := make([]byte, n)
	FillStamp(b, id, ver)
	return b
}

func FillStamp(b []byte, id txfile.PageID, ver uint64) {
	x := uint64(id)*0x9E3779B97F4A7C15 ^ ver*0xD1B54A32D192ED03 ^ 0xA5A5A5A5A5A5A5A5
	var tmp [8]byte
	for i := 0; i < len(b); i += 8 {
		var v uint64
		switch i {
		case 0:
			v = uint64(id)
		case 8:
			v = ver
		default:
			x ^= x << 13
			x ^= x >> 7
			x ^= x << 17
			v = x
		}
		binary.LittleEndian.PutUint64(tmp[:], v)
		copy(b[i:], tmp[:])
	}
}

func (w *World) nextVer() uint64 { w.verCounter++; return w.verCounter }

// ---- transaction handling ----

// Begin starts a write transaction.
func (w *World) Begin(opts txfile.TxOptions) bool {
	if w.Tx != nil {
		return true
	}
	if w.Mon.AbortID || w.Mon.Ownership || w.Mon.Partition {
		s := w.F.VerifSnapshot()
		w.snapBegin = &s
		w.metaAtBegin = metaSet(&s)
	}
	var err error
	if w.guard("Begin", func() { w.Tx, err = w.F.BeginWith(opts) }) {
		return false
	}
	if err != nil {
		w.violate("begin-failed", "begin-failed:"+kindOf(err), "Begin failed: %v", err)
		return false
	}
	w.txPages = map[txfile.PageID]*txPage{}
	w.txOrder = nil
	w.txRoot = w.Committed.Root
	w.txOverflow = opts.EnableOverflowArea
	if opts.EnableOverflowArea {
		w.OverflowEver = true
	}
	w.tracef("begin overflow=%v wal=%d grow=%d", opts.EnableOverflowArea, opts.WALLimit, opts.MetaAreaGrowPercentage)
	if w.Tx.Root() != w.Committed.Root {
		w.violate("root-mismatch", "root-mismatch", "write tx root %d != model root %d", w.Tx.Root(), w.Committed.Root)
		return false
	}
	return true
}

func metaSet(s *txfile.VerifSnapshot) map[txfile.PageID]bool {
	m := map[txfile.PageID]bool{}
	add := func(rs []txfile.VerifRegion) {
		for _, r := range rs {
			for i := uint32(0); i < r.Count; i++ {
				m[r.ID+txfile.PageID(i)] = true
			}
		}
	}
	add(s.MetaFree)
	add(s.FreelistPages)
	add(s.WALPages)
	for _, v := range s.WALMapping {
		m[v] = true
	}
	return m
}

func regionSet(rs []txfile.VerifRegion) map[txfile.PageID]bool {
	m := map[txfile.PageID]bool{}
	for _, r := range rs {
		for i := uint32(0); i < r.Count; i++ {
			m[r.ID+txfile.PageID(i)] = true
		}
	}
	return m
}

// candidate lists, sorted by id
func (w *World) candWrite() []txfile.PageID {
	var ids []txfile.PageID
	for id := range w.Committed.Pages {
		if tp := w.txPages[id]; tp != nil && (tp.freed || tp.flushed) {
			continue
		}
		ids = append(ids, id)
	}
	for id, tp := range w.txPages {
		if tp.isNew && !tp.freed && !tp.flushed {
			ids = append(ids, id)
		}
	}
	sortIDs(ids)
	return ids
}

func (w *World) candRead() []txfile.PageID {
	var ids []txfile.PageID
	for id := range w.Committed.Pages {
		if tp := w.txPages[id]; tp != nil && tp.freed {
			continue
		}
		ids = append(ids, id)
	}
	for id, tp := range w.txPages {
		if tp.isNew && !tp.freed {
			ids = append(ids, id)
		}
	}
	sortIDs(ids)
	return ids
}

func (w *World) candFree() []txfile.PageID {
	var ids []txfile.PageID
	for id := range w.Committed.Pages {
		if id == w.txRoot {
			continue
		}
		if tp := w.txPages[id]; tp != nil && (tp.freed || tp.flushed || tp.dirty) {
			continue
		}
		ids = append(ids, id)
	}
	for id, tp := range w.txPages {
		if tp.isNew && !tp.freed && !tp.flushed && !tp.dirty && id != w.txRoot {
			ids = append(ids, id)
		}
	}
	sortIDs(ids)
	return ids
}

func (w *World) candFlush() []txfile.PageID {
	var ids []txfile.PageID
	for id, tp := range w.txPages {
		if tp.dirty && !tp.flushed && !tp.freed {
			ids = append(ids, id)
		}
	}
	sortIDs(ids)
	return ids
}

func sortIDs(ids []txfile.PageID) {
	sort.Slice(ids, func(i, j int) bool { return ids[i] < ids[j] })
}

func (w *World) getTxPage(id txfile.PageID) *txPage {
	if tp := w.txPages[id]; tp != nil {
		return tp
	}
	var pg *txfile.Page
	var err error
	if w.guard("Tx.Page", func() { pg, err = w.Tx.Page(id) }) {
		return nil
	}
	if err != nil {
		w.lastErr = err
		w.violate("page-access", "page-access:"+kindOf(err), "Tx.Page(%d) of live page failed: %v", id, err)
		return nil
	}
	tp := &txPage{id: id, page: pg}
	if c := w.Committed.Pages[id]; c != nil {
		tp.content = c.clone()
	}
	w.txPages[id] = tp
	return tp
}

// Alloc allocates n pages. fill: 0 none, 1 full SetBytes, 2 partial SetBytes, 3 Load+MarkDirty.
func (w *World) Alloc(n int, fill int) bool {
	var pages []*txfile.Page
	var err error
	if w.guard("Alloc", func() {
		if n == 1 {
			var p *txfile.Page
			p, err = w.Tx.Alloc()
			if err == nil {
				pages = []*txfile.Page{p}
			}
		} else {
			pages, err = w.Tx.AllocN(n)
		}
	}) {
		return false
	}
	if err != nil {
		if txerr.Is(txfile.OutOfMemory, err) && w.Cfg.MaxPages > 0 {
			w.OOMs++
			w.tracef("alloc(%d) -> OOM", n)
			return true
		}
		w.lastErr = err
		w.violate("alloc-error", "alloc-error:"+kindOf(err), "AllocN(%d) failed unexpectedly: %v", n, err)
		return false
	}
	if len(pages) != n {
		w.violate("alloc-count", "alloc-count", "AllocN(%d) returned %d pages", n, len(pages))
		return false
	}
	for i, p := range pages {
		if p == nil {
			w.violate("alloc-count", "alloc-nil-page", "AllocN(%d) returned no error but page %d of the result is nil", n, i)
			return false
		}
	}
	var snap *txfile.VerifSnapshot
	if w.Mon.Ownership {
		s := w.F.VerifSnapshot()
		snap = &s
	}
	var ids []txfile.PageID
	seen := map[txfile.PageID]bool{}
	for _, p := range pages {
		id := p.ID()
		ids = append(ids, id)
		if w.Mon.Ownership {
			if !w.checkOwnership(id, snap, seen) {
				return false
			}
		}
		seen[id] = true
		w.txPages[id] = &txPage{id: id, page: p, isNew: true}
		w.txOrder = append(w.txOrder, id)
		w.Allocs++
	}
	w.tracef("alloc(%d) -> %v", n, ids)
	for _, id := range ids {
		if fill > 0 {
			if !w.Write(id, fill-1, 0) {
				return false
			}
		}
	}
	return true
}

func (w *World) checkOwnership(id txfile.PageID, snap *txfile.VerifSnapshot, seen map[txfile.PageID]bool) bool {
	bad := func(why string) bool {
		w.violate("ownership", "ownership:"+why, "Alloc returned page %d which is %s", id, why)
		return false
	}
	if id < 2 {
		return bad("a header page")
	}
	if seen[id] {
		return bad("returned twice by one call")
	}
	if tp := w.txPages[id]; tp != nil {
		if tp.isNew && tp.freed {
			// allocated and freed within this transaction -> may be recycled
		} else if tp.isNew {
			return bad("already allocated in the running transaction")
		} else if tp.freed {
			return bad("a committed page freed by the running transaction")
		}
	}
	if _, live := w.Committed.Pages[id]; live {
		if tp := w.txPages[id]; tp != nil && tp.freed {
			return bad("a committed page freed by the running transaction")
		}
		return bad("live in the committed state")
	}
	if w.metaAtBegin[id] {
		return bad("used internally (meta area at transaction begin)")
	}
	if snap != nil {
		if regionSet(snap.MetaFree)[id] {
			return bad("in the meta area free list")
		}
		if regionSet(snap.DataFree)[id] {
			return bad("still in the data free list")
		}
		if id >= snap.DataEnd {
			return bad("beyond the data end marker")
		}
	}
	if w.Cfg.MaxPages > 0 && !w.OverflowEver && snap != nil && snap.MaxPages > 0 && uint(id) >= snap.MaxPages {
		return bad("beyond the maximum file size")
	}
	return true
}

// Write writes to page id. mode: 0 full SetBytes, 1 partial SetBytes, 2 Load+modify+MarkDirty, 3 Load only.
func (w *World) Write(id txfile.PageID, mode int, length int) bool {
	tp := w.getTxPage(id)
	if tp == nil {
		return false
	}
	ps := int(w.Cfg.PageSize)
	ver := w.nextVer()
	var err error
	if !tp.isNew && (tp.content == nil || !tp.content.Defined) {
		// committed page that was never written: only a full write is defined
		mode = 0
	}
	switch mode {
	case 0:
		buf := Stamp(id, ver, ps)
		if w.guard("SetBytes", func() { err = tp.page.SetBytes(buf) }) {
			return false
		}
		if err == nil {
			tp.content = &PContent{Data: append([]byte(nil), buf...), Defined: true}
			tp.dirty = true
		}
	case 1:
		if length <= 0 || length >= ps {
			length = 1 + int((w.lenSeed+uint64(id))*7919%uint64(ps-1))
		}
		buf := Stamp(id, ver, ps)[:length]
		if w.guard("SetBytes", func() { err = tp.page.SetBytes(buf) }) {
			return false
		}
		if err == nil {
			w.applyPartial(tp, buf)
			tp.dirty = true
		}
	case 2, 3:
		if w.guard("Load", func() { err = tp.page.Load() }) {
			return false
		}
		if err == nil {
			if tp.content == nil {
				// new page without contents -> zero buffer
				tp.content = &PContent{Data: make([]byte, ps), Defined: true}
			}
			tp.loaded = true
			var b []byte
			if w.guard("Bytes", func() { b, err = tp.page.Bytes() }) {
				return false
			}
			if err != nil {
				break
			}
			if len(b) != ps {
				w.violate("bytes-len", "bytes-len", "Bytes() after Load returned %d bytes", len(b))
				return false
			}
			if !tp.content.Defined {
				// contents never defined by the model: what Load copied is what
				// the page holds from now on.
				tp.content = &PContent{Data: append([]byte(nil), b...), Defined: true}
			}
			if !bytes.Equal(b, tp.content.Data) {
				w.contentMismatch("in-tx-load", id, b, tp.content.Data)
				return false
			}
			if mode == 2 {
				if length <= 0 || length > ps {
					length = 1 + int((w.lenSeed+uint64(id))*104729%uint64(ps))
				}
				off := int((w.lenSeed+uint64(id))*31) % (ps - length + 1)
				patch := Stamp(id, ver, length+8)[8:]
				copy(b[off:], patch[:length])
				copy(tp.content.Data[off:], patch[:length])
				if w.guard("MarkDirty", func() { err = tp.page.MarkDirty() }) {
					return false
				}
				if err == nil {
					tp.dirty = true
				}
			}
		}
	}
	if err != nil {
		if txerr.Is(txfile.OutOfMemory, err) && w.Cfg.MaxPages > 0 {
			w.OOMs++
			w.tracef("write(%d,mode=%d) -> OOM", id, mode)
			return true
		}
		w.lastErr = err
		w.violate("write-error", "write-error:"+kindOf(err), "write mode %d to page %d failed: %v", mode, id, err)
		return false
	}
	w.Writes++
	w.tracef("write(%d,mode=%d,len=%d)", id, mode, length)
	return true
}

func (w *World) applyPartial(tp *txPage, buf []byte) {
	ps := int(w.Cfg.PageSize)
	if tp.content == nil {
		tp.content = &PContent{Data: make([]byte, ps), Defined: true}
	}
	if !tp.content.Defined {
		return // rest of the page unknown to the model
	}
	copy(tp.content.Data, buf)
}

func (w *World) contentMismatch(rule string, id txfile.PageID, got, want []byte) {
	i := 0
	for i < len(got) && i < len(want) && got[i] == want[i] {
		i++
	}
	gotID, gotVer := uint64(0), uint64(0)
	if len(got) >= 16 {
		gotID, gotVer = binary.LittleEndian.Uint64(got), binary.LittleEndian.Uint64(got[8:])
	}
	wantVer := uint64(0)
	if len(want) >= 16 {
		wantVer = binary.LittleEndian.Uint64(want[8:])
	}
	poison := len(got) > 0 && got[0] == simdisk.Poison && got[len(got)-1] == simdisk.Poison
	w.violate(rule, rule, "page %d content mismatch at byte %d: got stamp(id=%d,ver=%d) want ver=%d poison=%v", id, i, gotID, gotVer, wantVer, poison)
}

// Read reads a page in the running transaction and compares with the model.
func (w *World) Read(id txfile.PageID) bool {
	tp := w.getTxPage(id)
	if tp == nil {
		return false
	}
	var b []byte
	var err error
	if !tp.isNew && (tp.content == nil || !tp.content.Defined) {
		return true // never written: nothing defined to read
	}
	if w.guard("Bytes", func() { b, err = tp.page.Bytes() }) {
		return false
	}
	if tp.isNew && tp.content == nil {
		if err == nil {
			w.violate("bytes-fresh", "bytes-fresh", "Bytes() on fresh page %d without contents returned no error", id)
			return false
		}
		if !txerr.Is(txfile.InvalidOp, err) {
			w.violate("bytes-fresh-kind", "bytes-fresh-kind:"+kindOf(err), "Bytes() on fresh page %d: unexpected error %v", id, err)
			return false
		}
		return true
	}
	if err != nil {
		w.lastErr = err
		w.violate("read-error", "read-error:"+kindOf(err), "Bytes() of page %d failed: %v", id, err)
		return false
	}
	if tp.content != nil && tp.content.Defined && w.Mon.Content {
		if !bytes.Equal(b, tp.content.Data) {
			w.contentMismatch("in-tx-read", id, b, tp.content.Data)
			return false
		}
	}
	w.tracef("read(%d)", id)
	return true
}

// Free frees a page in the running transaction.
func (w *World) Free(id txfile.PageID) bool {
	tp := w.getTxPage(id)
	if tp == nil {
		return false
	}
	var err error
	if w.guard("Free", func() { err = tp.page.Free() }) {
		return false
	}
	if err != nil {
		w.lastErr = err
		w.violate("free-error", "free-error:"+kindOf(err), "Free(%d) failed: %v", id, err)
		return false
	}
	tp.freed = true
	w.Frees++
	w.tracef("free(%d) new=%v", id, tp.isNew)
	return true
}

// FlushPage flushes one dirty page.
func (w *World) FlushPage(id txfile.PageID) bool {
	tp := w.txPages[id]
	var err error
	if w.guard("Page.Flush", func() { err = tp.page.Flush() }) {
		return false
	}
	if err != nil {
		if txerr.Is(txfile.OutOfMemory, err) && w.Cfg.MaxPages > 0 {
			w.OOMs++
			w.tracef("flushpage(%d) -> OOM", id)
			return true
		}
		w.lastErr = err
		w.violate("flush-error", "flush-error:"+kindOf(err), "Flush(%d) failed: %v", id, err)
		return false
	}
	tp.flushed = true
	w.tracef("flushpage(%d)", id)
	return true
}

// FlushTx flushes all dirty pages.
func (w *World) FlushTx() bool {
	var err error
	if w.guard("Tx.Flush", func() { err = w.Tx.Flush() }) {
		return false
	}
	if err != nil {
		if txerr.Is(txfile.OutOfMemory, err) && w.Cfg.MaxPages > 0 {
			// some pages may have been flushed; find out which through Dirty()/Flush
			w.OOMs++
			w.tracef("flushtx -> OOM")
			w.resyncFlushed()
			return true
		}
		w.lastErr = err
		w.violate("flush-error", "flush-error:"+kindOf(err), "Tx.Flush failed: %v", err)
		return false
	}
	for _, tp := range w.txPages {
		if tp.dirty && !tp.freed {
			tp.flushed = true
		}
	}
	w.tracef("flushtx")
	return true
}

// resyncFlushed learns which pages were flushed by a partially failing Tx.Flush
// by probing with MarkDirty (fails with InvalidOp on flushed pages, is a no-op
// on dirty pages).
func (w *World) resyncFlushed() {
	for _, tp := range w.txPages {
		if tp.dirty && !tp.flushed && !tp.freed {
			if err := tp.page.MarkDirty(); err != nil {
				tp.flushed = true
			}
		}
	}
}

// Checkpoint runs CheckpointWAL.
func (w *World) Checkpoint() bool {
	var err error
	if w.guard("CheckpointWAL", func() { err = w.Tx.CheckpointWAL() }) {
		return false
	}
	if err != nil {
		w.lastErr = err
		w.violate("checkpoint-error", "checkpoint-error:"+kindOf(err), "CheckpointWAL failed: %v", err)
		return false
	}
	w.tracef("checkpoint")
	return true
}

// SetRoot sets the root to id.
func (w *World) SetRoot(id txfile.PageID) {
	w.Tx.SetRoot(id)
	w.txRoot = id
	w.tracef("setroot(%d)", id)
}

// End finishes the running transaction. how: OCommit, ORollback, OClose.
// Returns ok=false if a violation has been recorded.
func (w *World) End(how OpKind) bool {
	if w.Tx == nil {
		return true
	}
	tx := w.Tx
	var err error
	name := how.String()
	if w.Markers && how == OCommit {
		w.Disk.Marker("commit-begin", int64(w.LastTxid+1))
	}
	if w.guard("Tx."+name, func() {
		switch how {
		case OCommit:
			err = tx.Commit()
		case ORollback:
			err = tx.Rollback()
		default:
			err = tx.Close()
		}
	}) {
		w.Tx = nil
		return false
	}
	w.Tx = nil
	committed := how == OCommit && err == nil
	if w.Markers && how == OCommit {
		if committed {
			w.Disk.Marker("commit-ok", int64(w.LastTxid+1))
		} else {
			w.Disk.Marker("commit-fail", int64(w.LastTxid+1))
		}
	}
	if err != nil {
		if how != OCommit {
			w.violate("abort-error", "abort-error:"+kindOf(err), "%s failed: %v", name, err)
			return false
		}
		if w.Cfg.MaxPages == 0 {
			w.violate("commit-error", "commit-error:"+allKinds(err), "Commit failed unexpectedly on an unbounded file: %+v", err)
			return false
		}
		// bounded file: a commit may fail for lack of space (meta pages,
		// overwrite pages). The error kind is not part of this oracle.
		w.OOMs++
		if !txerr.Is(txfile.OutOfMemory, err) {
			w.Res.Add("commit_failed_without_oom_kind", 1)
		}
		w.tracef("commit -> failed (%s)", allKinds(err))
	}
	if committed {
		ns := w.Committed.clone()
		ns.Root = w.txRoot
		for id, tp := range w.txPages {
			switch {
			case tp.freed:
				delete(ns.Pages, id)
			case tp.isNew:
				if tp.dirty && tp.content != nil {
					ns.Pages[id] = tp.content
				} else {
					ns.Pages[id] = &PContent{Defined: false}
				}
			case tp.dirty:
				ns.Pages[id] = tp.content
			}
		}
		w.Committed = ns
		w.Commits++
		w.tracef("commit ok live=%d", len(ns.Pages))
	} else {
		w.Aborts++
		w.tracef("%s (abort)", name)
	}
	w.txPages = nil

	// header txid must advance by exactly one per successful commit
	snap := w.F.VerifSnapshot()
	txid := snap.Headers[snap.MetaActive].Txid
	if committed {
		if txid != w.LastTxid+1 {
			w.violate("txid-step", "txid-step", "header txid after commit is %d, before %d", txid, w.LastTxid)
			return false
		}
	} else if txid != w.LastTxid {
		w.violate("txid-abort", "txid-abort", "header txid changed by aborted transaction: %d -> %d", w.LastTxid, txid)
		return false
	}
	w.LastTxid = txid
	if w.KeepStates && committed {
		st := w.Committed.clone()
		st.Txid = txid
		w.States[txid] = st
	}

	if !committed && w.Mon.AbortID && w.snapBegin != nil {
		if d := diffSnap(w.snapBegin, &snap, true); d != "" {
			w.violate("abort-trace", "abort-trace:"+sigWords(d), "state after %s differs from state before Begin: %s", name, d)
			return false
		}
	}
	return w.checkQuiescent(name)
}

func sigWords(d string) string {
	// keep only the field names of a diff as signature
	var fs []string
	for _, part := range strings.Split(d, ";") {
		part = strings.TrimSpace(part)
		if i := strings.IndexByte(part, ':'); i > 0 {
			fs = append(fs, part[:i])
		}
	}
	return strings.Join(fs, ",")
}

// checkQuiescent runs the monitors that apply between transactions.
func (w *World) checkQuiescent(after string) bool {
	if w.failed {
		return false
	}
	if w.TraceOn {
		s := w.F.VerifSnapshot()
		fmt.Fprintf(os.Stderr, "SNAP after %s: maxPages=%d dataEnd=%d metaEnd=%d metaTotal=%d dataFree=%v metaFree=%v freelistPages=%v walPages=%v wal=%v\n", after, s.MaxPages, s.DataEnd, s.MetaEnd, s.MetaTotal, s.DataFree, s.MetaFree, s.FreelistPages, s.WALPages, s.WALMapping)
	}
	if w.Mon.LockIdle {
		shared, pending, resFree := w.F.VerifLockState()
		if shared != 0 || pending || !resFree {
			w.violate("lock-leak", fmt.Sprintf("lock-leak:%s:shared=%d,pending=%v,reservedFree=%v", afterClass(after), shared, pending, resFree),
				"no transaction open after %s but lock state is shared=%d pending=%v reservedFree=%v", after, shared, pending, resFree)
			return false
		}
	}
	if w.Mon.Content {
		if !w.VerifyCommitted() {
			return false
		}
	}
	if w.Mon.Partition || w.Mon.Conserve {
		s := w.F.VerifSnapshot()
		if !w.checkPartition(&s, after) {
			return false
		}
		if w.Mon.Conserve && w.Cfg.MaxPages > 0 && !w.OverflowEver {
			if !w.checkConservation(&s, after) {
				return false
			}
		}
	}
	return true
}

func afterClass(after string) string {
	if strings.HasPrefix(after, "open") {
		return "open"
	}
	return after
}

// VerifyCommitted opens a read transaction and compares every live page and the root.
func (w *World) VerifyCommitted() bool {
	var tx *txfile.Tx
	var err error
	if w.guard("BeginReadonly", func() { tx, err = w.F.BeginReadonly() }) {
		return false
	}
	if err != nil {
		w.violate("beginro-failed", "beginro-failed:"+kindOf(err), "BeginReadonly failed: %v", err)
		return false
	}
	ok := w.verifyIn(tx, w.Committed, "committed-read")
	var cerr error
	if w.guard("Tx.Close(ro)", func() { cerr = tx.Close() }) {
		return false
	}
	if cerr != nil && ok {
		w.violate("close-ro", "close-ro", "closing read transaction failed: %v", cerr)
		return false
	}
	return ok
}

func (w *World) verifyIn(tx *txfile.Tx, st *State, rule string) bool {
	if tx.Root() != st.Root {
		w.violate(rule+"-root", rule+"-root", "root is %d, model says %d", tx.Root(), st.Root)
		return false
	}
	for _, id := range st.sortedIDs() {
		c := st.Pages[id]
		if !c.Defined {
			// allocated but never written: txfile defines neither the contents
			// nor that the page is backed by the file yet.
			continue
		}
		var b []byte
		var err error
		if w.guard("Page/Bytes(ro)", func() {
			var p *txfile.Page
			p, err = tx.Page(id)
			if err == nil {
				b, err = p.Bytes()
			}
		}) {
			return false
		}
		if err != nil {
			w.violate(rule+"-access", rule+"-access:"+kindOf(err), "live page %d not readable: %v", id, err)
			return false
		}
		if c.Defined && !bytes.Equal(b, c.Data) {
			w.contentMismatch(rule, id, b, c.Data)
			return false
		}
	}
	return true
}

// Reopen closes and reopens the file.
func (w *World) Reopen() bool {
	var before txfile.VerifSnapshot
	if w.Mon.ReopenID {
		before = w.F.VerifSnapshot()
	}
	if !w.CloseFile() {
		return false
	}
	if !w.Open() {
		return false
	}
	w.Reopens++
	if w.Mon.ReopenID {
		after := w.F.VerifSnapshot()
		if d := diffSnap(&before, &after, false); d != "" {
			w.violate("reopen-diff", "reopen-diff:"+sigWords(d), "state after reopen differs from state before close: %s", d)
			return false
		}
	}
	return true
}

// CloseFile closes the txfile.File.
func (w *World) CloseFile() bool {
	var err error
	f := w.F
	if w.guard("File.Close", func() { err = f.Close() }) {
		return false
	}
	w.F = nil
	if err != nil {
		w.violate("fclose-error", "fclose-error", "File.Close failed: %v", err)
		return false
	}
	if w.Disk.Locked() || !w.Disk.Closed() {
		w.violate("fclose-lock", "fclose-lock", "after File.Close: path lock held=%v, file closed=%v", w.Disk.Locked(), w.Disk.Closed())
		return false
	}
	w.tracef("fclose")
	return true
}

// diffSnap compares two snapshots. sameInstance also compares the header slot and meta page identities.
func diffSnap(a, b *txfile.VerifSnapshot, sameInstance bool) string {
	var d []string
	add := func(f string, x, y interface{}) {
		d = append(d, fmt.Sprintf("%s: %v -> %v", f, x, y))
	}
	if a.DataEnd != b.DataEnd {
		add("dataEnd", a.DataEnd, b.DataEnd)
	}
	if a.MetaEnd != b.MetaEnd {
		add("metaEnd", a.MetaEnd, b.MetaEnd)
	}
	if a.MetaTotal != b.MetaTotal {
		add("metaTotal", a.MetaTotal, b.MetaTotal)
	}
	if a.MaxPages != b.MaxPages {
		add("maxPages", a.MaxPages, b.MaxPages)
	}
	if x, y := setDiff(regionSet(a.DataFree), regionSet(b.DataFree)); x != "" || y != "" {
		add("dataFree", "-"+x, "+"+y)
	}
	if x, y := setDiff(regionSet(a.MetaFree), regionSet(b.MetaFree)); x != "" || y != "" {
		add("metaFree", "-"+x, "+"+y)
	}
	if x, y := setDiff(regionSet(a.FreelistPages), regionSet(b.FreelistPages)); x != "" || y != "" {
		add("freelistPages", "-"+x, "+"+y)
	}
	if x, y := setDiff(regionSet(a.WALPages), regionSet(b.WALPages)); x != "" || y != "" {
		add("walPages", "-"+x, "+"+y)
	}
	if len(a.WALMapping) != len(b.WALMapping) {
		add("walMapping", len(a.WALMapping), len(b.WALMapping))
	} else {
		for k, v := range a.WALMapping {
			if b.WALMapping[k] != v {
				add("walMapping", fmt.Sprintf("%d=>%d", k, v), fmt.Sprintf("%d=>%d", k, b.WALMapping[k]))
				break
			}
		}
	}
	ha, hb := a.Headers[a.MetaActive], b.Headers[b.MetaActive]
	if ha.Txid != hb.Txid {
		add("txid", ha.Txid, hb.Txid)
	}
	if ha.Root != hb.Root {
		add("root", ha.Root, hb.Root)
	}
	if ha.MaxSize != hb.MaxSize {
		add("hdrMaxSize", ha.MaxSize, hb.MaxSize)
	}
	if sameInstance {
		if a.MetaActive != b.MetaActive {
			add("metaActive", a.MetaActive, b.MetaActive)
		}
		if a.FreelistRoot != b.FreelistRoot {
			add("freelistRoot", a.FreelistRoot, b.FreelistRoot)
		}
	}
	if a.DataAvail != b.DataAvail {
		add("dataAvail", a.DataAvail, b.DataAvail)
	}
	if a.MetaAvail != b.MetaAvail {
		add("metaAvail", a.MetaAvail, b.MetaAvail)
	}
	return strings.Join(d, "; ")
}

func setDiff(a, b map[txfile.PageID]bool) (onlyA, onlyB string) {
	var xa, xb []txfile.PageID
	for id := range a {
		if !b[id] {
			xa = append(xa, id)
		}
	}
	for id := range b {
		if !a[id] {
			xb = append(xb, id)
		}
	}
	sortIDs(xa)
	sortIDs(xb)
	f := func(l []txfile.PageID) string {
		if len(l) == 0 {
			return ""
		}
		if len(l) > 8 {
			return fmt.Sprintf("%v..(%d)", l[:8], len(l))
		}
		return fmt.Sprint(l)
	}
	return f(xa), f(xb)
}

// checkPartition verifies that {headers, live, data free, meta free, meta in
// use} are pairwise disjoint, inside the end markers, and cover every page.
func (w *World) checkPartition(s *txfile.VerifSnapshot, after string) bool {
	owner := map[txfile.PageID]string{0: "header", 1: "header"}
	claim := func(id txfile.PageID, who string) bool {
		if o, dup := owner[id]; dup {
			w.violate("partition-overlap", "partition-overlap:"+o+"/"+who, "after %s: page %d is both %s and %s", after, id, o, who)
			return false
		}
		owner[id] = who
		return true
	}
	for id := range w.Committed.Pages {
		if !claim(id, "live") {
			return false
		}
		if id >= s.DataEnd {
			w.violate("partition-bounds", "partition-bounds:live", "after %s: live page %d >= data end marker %d", after, id, s.DataEnd)
			return false
		}
	}
	for id := range regionSet(s.DataFree) {
		if !claim(id, "data-free") {
			return false
		}
		if id >= s.DataEnd {
			w.violate("partition-bounds", "partition-bounds:data-free", "after %s: free data page %d >= data end marker %d", after, id, s.DataEnd)
			return false
		}
	}
	metaCount := 0
	for id := range regionSet(s.MetaFree) {
		if !claim(id, "meta-free") {
			return false
		}
		metaCount++
	}
	for id := range regionSet(s.FreelistPages) {
		if !claim(id, "freelist-page") {
			return false
		}
		metaCount++
	}
	for id := range regionSet(s.WALPages) {
		if !claim(id, "wal-map-page") {
			return false
		}
		metaCount++
	}
	for orig, wal := range s.WALMapping {
		if !claim(wal, "wal-overwrite-page") {
			return false
		}
		metaCount++
		if _, live := w.Committed.Pages[orig]; !live {
			w.violate("wal-orphan", "wal-orphan", "after %s: overwrite mapping %d=>%d for a page that is not live", after, orig, wal)
			return false
		}
	}
	if w.Mon.Conserve || w.Mon.Coverage {
		// (a shrink on open is known to leave the old free-list meta pages
		// unreferenced - outside the listed properties - so the meta area total
		// is not compared on shrunk files)
		if uint(metaCount) != s.MetaTotal && !w.NoCoverage {
			w.violate("meta-total", "meta-total", "after %s: meta area holds %d pages (free+in use) but metaTotal=%d", after, metaCount, s.MetaTotal)
			return false
		}
		if s.DataAvail != uint(len(regionSet(s.DataFree))) || s.MetaAvail != uint(len(regionSet(s.MetaFree))) {
			w.violate("avail-counter", "avail-counter", "after %s: free list counters (data=%d meta=%d) disagree with lists (%d,%d)", after, s.DataAvail, s.MetaAvail, len(regionSet(s.DataFree)), len(regionSet(s.MetaFree)))
			return false
		}
		end := s.DataEnd
		if s.MetaEnd > end {
			end = s.MetaEnd
		}
		// coverage: every page below the data end marker has an owner. With
		// the overflow area in use the markers also cover released overflow
		// pages; the conservation property (C11) excludes that case.
		covEnd := s.DataEnd
		if w.NoCoverage {
			// after a shrink pages beyond the new limit may be released (unowned);
			// below the limit every page still has an owner
			if s.MaxPages > 0 && txfile.PageID(s.MaxPages) < covEnd {
				covEnd = txfile.PageID(s.MaxPages)
			} else if s.MaxPages == 0 {
				covEnd = 0
			}
		}
		for id := txfile.PageID(2); id < covEnd && !w.OverflowEver; id++ {
			if _, ok := owner[id]; !ok {
				w.violate("partition-leak", "partition-leak", "after %s: page %d (< data end %d) is neither live, free nor meta: leaked", after, id, s.DataEnd)
				return false
			}
		}
		for id := range owner {
			if id >= end {
				w.violate("partition-bounds", "partition-bounds:end", "after %s: page %d (%s) beyond end markers data=%d meta=%d", after, id, owner[id], s.DataEnd, s.MetaEnd)
				return false
			}
		}
	}
	return true
}

// Probe measures how many pages can be allocated (in a transaction that is rolled back).
func (w *World) Probe() (int, bool) {
	var tx *txfile.Tx
	var err error
	if w.guard("Begin(probe)", func() { tx, err = w.F.Begin() }) {
		return 0, false
	}
	if err != nil {
		w.violate("begin-failed", "begin-failed:"+kindOf(err), "Begin (probe) failed: %v", err)
		return 0, false
	}
	total := 0
	step := 1
	for step < w.Cfg.MaxPages {
		step *= 2
	}
	ok := true
	w.guard("AllocN(probe)", func() {
		for ; step >= 1; step /= 2 {
			for {
				pages, err := tx.AllocN(step)
				if err != nil {
					if !txerr.Is(txfile.OutOfMemory, err) {
						w.violate("alloc-error", "alloc-error:"+kindOf(err), "probe AllocN(%d) failed: %v", step, err)
						ok = false
						return
					}
					break
				}
				total += len(pages)
				if total > w.Cfg.MaxPages {
					w.violate("probe-overflow", "probe-overflow", "probe allocated %d pages on a file of %d pages", total, w.Cfg.MaxPages)
					ok = false
					return
				}
			}
		}
	})
	if w.guard("Rollback(probe)", func() { err = tx.Rollback() }) {
		return total, false
	}
	if err != nil {
		w.violate("abort-error", "abort-error:"+kindOf(err), "probe rollback failed: %v", err)
		return total, false
	}
	return total, ok && !w.failed
}

func (w *World) checkConservation(s *txfile.VerifSnapshot, after string) bool {
	live := len(w.Committed.Pages)
	avail, ok := w.Probe()
	if !ok {
		return false
	}
	maxPages := int(s.MaxPages)
	if got := avail + live + int(s.MetaTotal) + 2; got != maxPages {
		w.violate("conservation", "conservation", "after %s: allocatable(%d)+live(%d)+meta(%d)+2 = %d != max pages %d", after, avail, live, s.MetaTotal, got, maxPages)
		return false
	}
	st := w.Obs.Last()
	if int(st.DataAllocated) != live {
		w.violate("stats-data", "stats-data", "after %s: FileStats.DataAllocated=%d but %d pages are live (dataEnd=%d metaEnd=%d metaTotal=%d dataFree=%d hdrDataEnd=%d hdrMetaEnd=%d)", after, st.DataAllocated, live,
			s.DataEnd, s.MetaEnd, s.MetaTotal, s.DataAvail, s.Headers[s.MetaActive].DataEnd, s.Headers[s.MetaActive].MetaEnd)
		return false
	}
	if st.MetaArea != s.MetaTotal {
		w.violate("stats-meta", "stats-meta", "after %s: FileStats.MetaArea=%d but meta area holds %d pages", after, st.MetaArea, s.MetaTotal)
		return false
	}
	if st.MetaAllocated != s.MetaTotal-s.MetaAvail {
		w.violate("stats-meta-alloc", "stats-meta-alloc", "after %s: FileStats.MetaAllocated=%d but %d meta pages are in use", after, st.MetaAllocated, s.MetaTotal-s.MetaAvail)
		return false
	}
	if ext := w.Disk.MaxExtent; ext > int64(w.Cfg.MaxSize()) {
		w.violate("extent", "extent", "after %s: file extent %d exceeds the configured maximum size %d", after, ext, w.Cfg.MaxSize())
		return false
	}
	w.Res.Add("conservation_checks", 1)
	return true
}
