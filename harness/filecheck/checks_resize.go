package filecheck

import (
	"fmt"

	txfile "github.com/elastic/go-txfile"

	"verif/core"
	"verif/simdisk"
)

// C14: changing the maximum size on open.

type resizeSpec struct {
	OldPages, NewPages int // 0 = unbounded
	NewOdd             int
	Prealloc           bool
	Fault              *simdisk.Fault `json:"fault,omitempty"`
}

func (w *World) pageBytes(n int) uint64 { return uint64(n) * uint64(w.Cfg.PageSize) }

// reopenResized closes the file and opens it with FlagUpdMaxSize.
func (w *World) reopenResized(rs resizeSpec) bool {
	if !w.CloseFile() {
		return false
	}
	newSize := w.pageBytes(rs.NewPages) + uint64(rs.NewOdd)
	w.OpenOpts = func(o *txfile.Options) {
		o.Flags |= txfile.FlagUpdMaxSize
		o.MaxSize = newSize
		o.Prealloc = rs.Prealloc
		if rs.NewPages == 0 {
			o.MaxSize = 0
			o.Flags |= txfile.FlagUnboundMaxSize
		}
	}
	w.Cfg.MaxPages = rs.NewPages
	w.Cfg.MaxSizeOdd = rs.NewOdd
	if rs.NewPages > 0 && int(w.Cfg.InitMetaArea) >= rs.NewPages-2 {
		// Options.InitMetaArea only matters when a file is created, but Open
		// validates it against MaxSize: keep the option set valid
		w.Cfg.InitMetaArea = 2
	}
	if rs.NewPages > 0 && (rs.OldPages == 0 || rs.NewPages < rs.OldPages) {
		// pages beyond the new limit are released, not owned by anyone
		w.NoCoverage = true
	}
	w.tracef("reopen-resize old=%d new=%d odd=%d prealloc=%v", rs.OldPages, rs.NewPages, rs.NewOdd, rs.Prealloc)
	if rs.Fault != nil {
		// an I/O fault during the resizing Open: Open may fail (then the path must
		// be unlocked and a fault free retry must succeed) or succeed (the
		// optional clean-up transaction is allowed to fail); in both cases the
		// usual oracles of Open apply afterwards (lock idle, contents == model).
		w.Disk.SetFaults([]simdisk.Fault{*rs.Fault})
		opts := w.Cfg.Options()
		opts.Observer = w.Obs
		w.OpenOpts(&opts)
		var f *txfile.File
		var err error
		w.Disk.Reopenable()
		if w.guard("Open(resize, faulty)", func() { f, err = txfile.VerifOpenWith(w.Disk, opts, w.Hook) }) {
			return false
		}
		injected := w.Disk.Injected()
		w.Disk.ClearFaults()
		if err == nil {
			w.Res.Add("faulty_resize_open_succeeded", 1)
			if injected > 0 {
				w.Res.Add("faulty_resize_open_succeeded_with_injected_fault", 1)
			}
			// hand over to the normal path: close again and reopen without fault
			shared, pending, resFree := f.VerifLockState()
			if shared != 0 || pending || !resFree {
				w.violate("lock-leak", fmt.Sprintf("lock-leak:open-faulty:shared=%d,pending=%v,reservedFree=%v", shared, pending, resFree),
					"Open (resize) hit an injected I/O fault in its maintenance transactions and returned a File with lock state shared=%d pending=%v reservedFree=%v", shared, pending, resFree)
				return false
			}
			if got := int(f.VerifSnapshot().MaxPages); got != rs.NewPages {
				w.violate("resize-limit", "resize-limit:faulty-open", "Open (resize) hit an injected I/O fault and returned a File whose allocator limit is %d pages, expected %d", got, rs.NewPages)
				return false
			}
			// the File that Open returned must be fully usable, whatever the
			// (optional) maintenance transaction ran into: contents == model,
			// allocator bookkeeping consistent, allocation until the file is full
			// in a transaction that is rolled back
			w.F = f
			snap := f.VerifSnapshot()
			w.LastTxid = snap.Headers[snap.MetaActive].Txid
			if !w.checkQuiescent("open (resize, faulty)") {
				return false
			}
			if rs.OldPages > 0 && rs.NewPages > rs.OldPages {
				if _, ok := w.Probe(); !ok {
					return false
				}
			} else {
				// (after a shrink free pages past the new limit may remain
				// allocatable; nothing is demanded about the capacity then)
				n := 3
				if rs.NewPages > 0 {
					if n = int(snap.DataAvail); n > 200 {
						n = 200
					}
				}
				if n > 0 && (!w.Begin(txfile.TxOptions{}) || !w.Alloc(n, 1) || !w.End(ORollback)) {
					return false
				}
			}
			w.Res.Add("faulty_resize_open_file_used", 1)
			w.F = nil
			if w.guard("File.Close", func() { err = f.Close() }) {
				return false
			}
			// Open reported success, so the resize happened: a later plain open
			// (no size given) must report the new limit
			resizeOpts := w.OpenOpts
			w.OpenOpts = func(o *txfile.Options) { o.MaxSize, o.Prealloc = 0, false }
			ok := w.Open()
			w.OpenOpts = resizeOpts
			if !ok {
				return false
			}
			if st, want := w.Obs.Last(), w.pageBytes(rs.NewPages); st.MaxSize != want {
				w.violate("plain-open-limit", "plain-open-limit:faulty-open", "a resizing Open that hit an injected I/O fault returned success, but a plain open afterwards reports MaxSize=%d, expected %d", st.MaxSize, want)
				return false
			}
			w.Res.Add("plain_open_after_faulty_resize", 1)
			if !w.CloseFile() {
				return false
			}
		} else {
			w.Res.Add("faulty_resize_open_failed", 1)
			if injected == 0 {
				w.violate("open-failed", "open-failed:"+allKinds(err), "resizing Open failed without injected fault: %v", err)
				return false
			}
			if w.Disk.Locked() || !w.Disk.Closed() {
				w.violate("open-fail-lock", "open-fail-lock", "failed Open left the path locked=%v closed=%v", w.Disk.Locked(), w.Disk.Closed())
				return false
			}
		}
	}
	ok := w.Open()
	w.OpenOpts = nil
	return ok
}

func runResizeCase(c *core.Case) *core.Result {
	res := &core.Result{}
	r := c.R
	cfg := Config{PageSize: 1024, DiskCap: 4 << 20}
	if r.Chance(1, 4) {
		cfg.PageSize = 4096
	}
	minPages := 64 * 1024 / int(cfg.PageSize)
	sizes := []int{0, minPages, minPages + 1, minPages + 17, minPages + 64, minPages + 200, 2*minPages + 3}
	rs := resizeSpec{OldPages: sizes[r.Intn(len(sizes))], NewPages: sizes[r.Intn(len(sizes))], Prealloc: r.Chance(1, 3)}
	for rs.NewPages == rs.OldPages {
		rs.NewPages = sizes[r.Intn(len(sizes))]
	}
	if rs.NewPages > 0 && r.Chance(1, 3) {
		rs.NewOdd = 1 + r.Intn(int(cfg.PageSize)-1)
	}
	if r.Chance(1, 3) {
		kinds := []simdisk.IOKind{simdisk.KWrite, simdisk.KSync, simdisk.KSync, simdisk.KMMap, simdisk.KTruncate, simdisk.KSize}
		rs.Fault = &simdisk.Fault{Kind: kinds[r.Intn(len(kinds))], Index: r.Intn(5), Burst: 1 + r.Intn(2)}
		if shrinking := rs.NewPages > 0 && (rs.OldPages == 0 || rs.NewPages < rs.OldPages); shrinking && r.Chance(2, 3) {
			// aim at the second (optional) maintenance transaction of a shrink
			rs.Fault = &simdisk.Fault{Kind: []simdisk.IOKind{simdisk.KWrite, simdisk.KSync}[r.Intn(2)], Index: 1 + r.Intn(3), Burst: 1}
		}
	}
	cfg.MaxPages = rs.OldPages
	cfg.InitMetaArea = []uint32{0, 0, 2, 8}[r.Intn(4)]
	cfg.Prealloc = r.Chance(1, 4)
	cfg.SyncMode = r.Intn(3)

	mon := Monitors{Property: "C14", Content: true, LockIdle: true, Partition: true}
	w := NewWorld(cfg, mon, r, res)
	w.TraceOn = c.Verbose

	p := DefaultGen()
	p.Txs = 4 + r.Intn(14)
	p.PReopen = 0
	p.WFree = 25
	// small WAL limits keep overwrite mappings alive across the resize
	prefix := GenProgram(r, p)
	p.Txs = 3 + r.Intn(10)
	suffix := GenProgram(r, p)

	finish := func() *core.Result {
		if w.F != nil && w.Tx == nil {
			f := w.F
			w.guard("File.Close(final)", func() { f.Close() })
		}
		res.Key = w.Key()
		res.Nontrivial = w.Commits >= 2
		res.Add("commits", int64(w.Commits))
		res.Add("resizes", 1)
		kind := "grow"
		switch {
		case rs.NewPages == 0:
			kind = "to-unbounded"
		case rs.OldPages == 0:
			kind = "from-unbounded"
		case rs.NewPages < rs.OldPages:
			kind = "shrink"
		}
		res.Add("resize_"+kind, 1)
		res.SetAdd("resize_combos", fmt.Sprintf("%s,ps=%d,old=%d,new=%d,odd=%v,prealloc=%v", kind, cfg.PageSize, rs.OldPages, rs.NewPages, rs.NewOdd != 0, rs.Prealloc))
		if c.Idx%53 == 0 || c.Verbose {
			n := len(w.Trace)
			if n > 30 {
				n = 30
			}
			res.Sample = map[string]interface{}{"case": c.Idx, "resize": rs, "page_size": cfg.PageSize, "trace_head": w.Trace[:n]}
		}
		return res
	}

	overflowPrefix := rs.OldPages > 0 && (rs.NewPages == 0 || rs.NewPages > rs.OldPages) && r.Chance(1, 2)
	if !w.Open() || !w.Run(prefix) {
		return finish()
	}
	if overflowPrefix {
		// grow a file whose meta area has spilled into the overflow area: fill
		// the file completely, then let overflow-enabled transactions free and
		// overwrite pages until meta pages live past the max size
		for round := 0; round < 600; round++ {
			before := len(w.Committed.Pages)
			if !w.Begin(txfile.TxOptions{}) || !w.Alloc(1+r.Intn(8), 1) || !w.End(OCommit) {
				return finish()
			}
			if len(w.Committed.Pages) == before {
				break
			}
		}
		for round := 0; round < 16; round++ {
			if !w.Begin(txfile.TxOptions{EnableOverflowArea: true, WALLimit: 1000}) {
				return finish()
			}
			if cf := w.candFree(); len(cf) > 2 {
				if !w.Free(cf[r.Intn(len(cf))]) {
					return finish()
				}
			}
			for i := 0; i < 2+r.Intn(5); i++ {
				if cw := w.candWrite(); len(cw) > 0 {
					if !w.Write(cw[r.Intn(len(cw))], 0, 0) {
						return finish()
					}
				}
			}
			if !w.End(OCommit) {
				return finish()
			}
			if s := w.F.VerifSnapshot(); uint(s.MetaEnd) > s.MaxPages {
				res.Add("resizes_with_overflow_area_in_use", 1)
				break
			}
		}
		w.NoCoverage = true
	}
	if shrinking := rs.NewPages > 0 && (rs.OldPages == 0 || rs.NewPages < rs.OldPages); shrinking && rs.Fault != nil {
		// make the optional release transaction of the shrinking Open run (the one
		// the fault is aimed at): the file must end in a free region that lies
		// past the new limit. Allocate pages from the end of the file until it
		// extends beyond the new limit, commit, free them again, commit.
		var tail []txfile.PageID
		for round := 0; round < 40; round++ {
			if int(w.F.VerifSnapshot().DataEnd) > rs.NewPages+8 {
				break
			}
			if !w.Begin(txfile.TxOptions{}) {
				return finish()
			}
			before := len(w.txOrder)
			if !w.Alloc(8, 1) {
				return finish()
			}
			got := append([]txfile.PageID(nil), w.txOrder[before:]...)
			if !w.End(OCommit) {
				return finish()
			}
			if len(got) == 0 {
				break
			}
		}
		// free everything from a little below the new limit up to the end of the
		// file: the free region then straddles the new limit or starts at it
		lo := rs.NewPages - []int{0, 0, 1, 5, 11}[r.Intn(5)]
		for _, id := range w.Committed.sortedIDs() {
			if int(id) >= lo {
				tail = append(tail, id)
			}
		}
		if len(tail) > 0 {
			if !w.Begin(txfile.TxOptions{}) {
				return finish()
			}
			for _, id := range tail {
				if _, live := w.Committed.Pages[id]; live {
					if !w.Free(id) {
						return finish()
					}
				}
			}
			if !w.End(OCommit) {
				return finish()
			}
			res.Add("shrink_fault_cases_with_free_tail", 1)
		}
	}
	liveBefore := len(w.Committed.Pages)
	extentBefore := w.Disk.MaxExtent
	var availBefore int
	snapBefore := w.F.VerifSnapshot()
	// the extent of the file includes pages that are allocated but not written yet
	endBefore := snapBefore.DataEnd
	if snapBefore.MetaEnd > endBefore {
		endBefore = snapBefore.MetaEnd
	}
	if e := int64(endBefore) * int64(cfg.PageSize); e > extentBefore {
		extentBefore = e
	}
	if rs.OldPages > 0 {
		var ok bool
		if availBefore, ok = w.Probe(); !ok {
			return finish()
		}
	}
	walBefore := len(snapBefore.WALMapping)
	res.Add("wal_entries_at_resize", int64(walBefore))

	// the resize. Open() checks lock idle + readable state == model.
	if !w.reopenResized(rs) {
		return finish()
	}
	// both transaction kinds must be startable (lock state was verified idle by Open)
	if !w.Begin(txfile.TxOptions{}) || !w.End(OClose) {
		return finish()
	}
	snapAfter := w.F.VerifSnapshot()
	newMaxPages := rs.NewPages
	if int(snapAfter.MaxPages) != newMaxPages {
		w.violate("resize-limit", "resize-limit", "after resize the allocator limit is %d pages, expected %d", snapAfter.MaxPages, newMaxPages)
		return finish()
	}
	if rs.OldPages > 0 && rs.NewPages > rs.OldPages {
		// growth: exactly the additional pages become allocatable
		avail, ok := w.Probe()
		if !ok {
			return finish()
		}
		expect := rs.NewPages - rs.OldPages
		if int(endBefore) > rs.OldPages {
			// the file already extended past the old limit (meta pages in the
			// overflow area): those pages are in use and do not become allocatable
			expect = rs.NewPages - int(endBefore)
			if expect < 0 {
				expect = 0
			}
		}
		if avail-availBefore != expect {
			w.violate("grow-capacity", "grow-capacity", "growing from %d to %d pages changed the allocatable pages from %d to %d (expected +%d; file end before the resize at page %d)", rs.OldPages, rs.NewPages, availBefore, avail, expect, endBefore)
			return finish()
		}
		res.Add("grow_capacity_checks", 1)
	}
	if len(w.Committed.Pages) != liveBefore {
		w.violate("harness", "harness", "model changed over resize")
		return finish()
	}

	if !w.Run(suffix) {
		return finish()
	}

	// extent rule after shrinking
	if rs.NewPages > 0 && (rs.OldPages == 0 || rs.NewPages < rs.OldPages) {
		limit := int64(w.pageBytes(rs.NewPages)) + int64(rs.NewOdd)
		if extentBefore > limit {
			limit = extentBefore
		}
		if w.Disk.MaxExtent > limit {
			w.violate("shrink-extent", "shrink-extent", "after shrinking to %d pages the file grew to %d bytes (previous extent %d, new limit %d)", rs.NewPages, w.Disk.MaxExtent, extentBefore, w.pageBytes(rs.NewPages))
			return finish()
		}
		res.Add("shrink_extent_checks", 1)
	}

	// second resize (half of the cases): e.g. shrink below the extent, then grow
	// (with prealloc) to a limit that is still below the extent
	if r.Chance(1, 2) {
		rs2 := resizeSpec{OldPages: rs.NewPages, NewPages: sizes[r.Intn(len(sizes))], Prealloc: r.Chance(1, 2)}
		for rs2.NewPages == rs2.OldPages {
			rs2.NewPages = sizes[r.Intn(len(sizes))]
		}
		if rs2.NewPages > 0 && r.Chance(1, 3) {
			rs2.NewOdd = 1 + r.Intn(int(cfg.PageSize)-1)
		}
		if !w.reopenResized(rs2) { // Open checks lock idle and contents == model
			return finish()
		}
		if !w.Begin(txfile.TxOptions{}) || !w.End(OClose) {
			return finish()
		}
		p.Txs = 2 + r.Intn(6)
		if !w.Run(GenProgram(r, p)) {
			return finish()
		}
		rs = rs2
		res.Add("second_resizes", 1)
	}

	// a later plain open (no size given) reports the new limit
	w.OpenOpts = func(o *txfile.Options) { o.MaxSize, o.Prealloc = 0, false }
	ok := w.Reopen()
	w.OpenOpts = nil
	if !ok {
		return finish()
	}
	st := w.Obs.Last()
	want := w.pageBytes(rs.NewPages)
	if st.MaxSize != want {
		w.violate("plain-open-limit", "plain-open-limit", "plain open after resize reports MaxSize=%d, expected %d", st.MaxSize, want)
		return finish()
	}
	if s := w.F.VerifSnapshot(); int(s.MaxPages) != rs.NewPages {
		w.violate("plain-open-limit", "plain-open-limit", "plain open after resize uses a limit of %d pages, expected %d", s.MaxPages, rs.NewPages)
		return finish()
	}
	return finish()
}

func init() {
	core.Register(&core.Check{
		ID:          "C14",
		Level:       "exploration",
		Rule:        "case = PRNG prefix history (fragmentation, live overwrite mappings) x (old max, new max in {unbounded, 64KiB, +1, +17, +64, +200 pages, non-multiples}, prealloc) x follow-up history; oracle = lock state idle right after Open (then Begin/BeginReadonly executed), readable state == model across the resize and through the follow-up, after growth probe(allocatable) rises by exactly new-old pages, after shrink max file extent <= max(previous extent, new limit), later plain open reports the rounded new limit; distinct = hash of trace; non-trivial = >=2 commits",
		Assumptions: simdiskAssumptions,
		NumCases:    func(t string) int { return tierN(t, 800, 30000) },
		Run:         runResizeCase,
		Finalize: func(a *core.Aggregate) error {
			for _, k := range []string{"resize_grow", "resize_shrink", "resize_to-unbounded", "resize_from-unbounded"} {
				if a.Stats[k] == 0 {
					return fmt.Errorf("resize kind %s never explored", k)
				}
			}
			return nil
		},
	})
}
