package filecheck

import (
	"bytes"
	"fmt"
	"sync"

	txfile "github.com/elastic/go-txfile"
	"github.com/elastic/go-txfile/txerr"

	"verif/core"
	"verif/simdisk"
)

// C08: I/O failures are contained.

func isIOErr(err error) bool {
	return txerr.Is(txfile.IOError, err) || txerr.Is(txfile.NoDiskSpace, err) || txerr.Is(txfile.OSOtherError, err)
}

// faultWorld runs a program under a fault plan. Every API call may fail with
// an injected I/O error; the model only advances on a Commit that returned nil.
type faultRun struct {
	w   *World
	res *core.Result
	c   *core.Case

	mu      sync.Mutex
	points  map[string]int // commit points reached in the running commit
	attempt *State         // would-be state of the last failed commit whose header write went out
	// attemptTainted: after the attempt, another transaction flushed pages or
	// tried to commit, so pages of the attempt may have been recycled.
	attemptTainted bool
	attemptFrom    int // op log window of the attempt
	attemptTo      int
	sawIOFailure   bool
	// number of injected faults when the running transaction began: an I/O
	// error surfacing in a transaction must stem from an I/O call that failed
	// while that transaction was open (errors do not leak between transactions)
	injectedAtBegin int
}

// staleIOError reports an I/O error that surfaced although no I/O call failed
// since the transaction began.
func (fr *faultRun) staleIOError(where string, err error) bool {
	w := fr.w
	if err == nil || !isIOErr(err) || w.Disk.EnvLimitHit() || w.Disk.Injected() != fr.injectedAtBegin {
		return false
	}
	w.violate("stale-io-error", "stale-io-error:"+where, "%s failed with an I/O error (%s) although no I/O call failed since this transaction began (injected faults so far: %d): the error of an earlier, aborted transaction leaked into this one", where, allKinds(err), fr.injectedAtBegin)
	return true
}

func (fr *faultRun) hook(name string, arg int) {
	fr.mu.Lock()
	fr.points[name]++
	fr.mu.Unlock()
}

func (fr *faultRun) reached(name string) bool {
	fr.mu.Lock()
	defer fr.mu.Unlock()
	return fr.points[name] > 0
}

func (fr *faultRun) resetPoints() {
	fr.mu.Lock()
	fr.points = map[string]int{}
	fr.mu.Unlock()
}

// wouldBe computes the state the running transaction would commit.
func (w *World) wouldBe() *State {
	ns := w.Committed.clone()
	ns.Root = w.txRoot
	for id, tp := range w.txPages {
		switch {
		case tp.freed:
			delete(ns.Pages, id)
		case tp.isNew:
			if tp.dirty && tp.content != nil {
				ns.Pages[id] = tp.content
			} else {
				ns.Pages[id] = &PContent{Defined: false}
			}
		case tp.dirty:
			ns.Pages[id] = tp.content
		}
	}
	return ns
}

// abortTx rolls the running transaction back after an I/O error surfaced.
func (fr *faultRun) abortTx() bool {
	w := fr.w
	if w.Tx == nil {
		return true
	}
	tx := w.Tx
	var err error
	if w.guard("Tx.Rollback(after io error)", func() { err = tx.Rollback() }) {
		w.Tx = nil
		return false
	}
	w.Tx = nil
	w.txPages = nil
	w.Aborts++
	if err != nil {
		w.violate("abort-error", "abort-error:"+kindOf(err), "Rollback after an I/O error failed: %v", err)
		return false
	}
	w.tracef("rollback (after io error)")
	return true
}

// execFaulty executes op tolerating injected I/O errors. Returns false to stop the case.
func (fr *faultRun) execFaulty(op Op) bool {
	w := fr.w
	if w.failed {
		return false
	}
	switch op.K {
	case OReopen:
		if w.Tx != nil && !fr.abortTx() {
			return false
		}
		return fr.reopenFaulty()
	case OCommit:
		if w.Tx == nil {
			return true
		}
		return fr.commitFaulty()
	case ORollback, OClose:
		if w.Tx == nil {
			return true
		}
		ok := w.endTolerant(op.K)
		return ok && fr.afterTx()
	case OBegin:
		if w.Tx != nil {
			if !fr.abortTx() {
				return false
			}
		}
		// let writes that an aborted transaction may have left in the writer's
		// queue execute now (the unchanged code waits for them in Rollback/Close
		// itself): their failures then count before this transaction begins
		WaitWriterIdle(w.Disk)
		fr.injectedAtBegin = w.Disk.Injected()
		return w.Begin(txfile.TxOptions{EnableOverflowArea: op.A&1 != 0, WALLimit: uint(op.B), MetaAreaGrowPercentage: op.C})
	}
	if w.Tx == nil {
		return true
	}
	if fr.attempt != nil && (op.K == OFlushPage || op.K == OFlushTx || op.K == OCheckpoint) {
		fr.attemptTainted = true
	}
	// page level operations: run with violations captured, then reinterpret I/O errors
	nv := len(fr.res.Violations)
	ok := w.Exec(op)
	if !ok && len(fr.res.Violations) > nv {
		// was it merely an injected I/O error surfacing at this call?
		v := fr.res.Violations[len(fr.res.Violations)-1]
		if w.lastErr != nil && isIOErr(w.lastErr) && (v.Rule == "write-error" || v.Rule == "read-error" || v.Rule == "flush-error" || v.Rule == "free-error" || v.Rule == "alloc-error" || v.Rule == "page-access" || v.Rule == "checkpoint-error") {
			fr.res.Violations = fr.res.Violations[:nv]
			fr.res.Status = ""
			w.failed = false
			fr.sawIOFailure = true
			w.tracef("op %v -> io error (%s)", op, allKinds(w.lastErr))
			if fr.staleIOError(fmt.Sprintf("%v", op.K), w.lastErr) {
				return false
			}
			return fr.abortTx() && fr.afterTx()
		}
	}
	return ok
}

// endTolerant ends a transaction by Rollback/Close (no I/O error may surface).
func (w *World) endTolerant(how OpKind) bool {
	mon := w.Mon
	w.Mon.Content = false // verified by afterTx
	ok := w.End(how)
	w.Mon = mon
	return ok
}

func (fr *faultRun) commitFaulty() bool {
	w := fr.w
	tx := w.Tx
	if fr.attempt != nil {
		fr.attemptTainted = true
	}
	would := w.wouldBe()
	fr.resetPoints()
	seqBefore := w.Disk.Seq()
	var err error
	if w.guard("Tx.Commit", func() { err = tx.Commit() }) {
		w.Tx = nil
		return false
	}
	w.Tx = nil
	w.txPages = nil
	if err == nil {
		// success must mean durable: no failed write/sync inside the commit window
		for _, op := range w.Disk.Log() {
			if op.Seq >= seqBefore && !op.OK && (op.Kind == simdisk.OpWrite || op.Kind == simdisk.OpSync) {
				w.violate("commit-swallowed-error", "commit-swallowed-error:"+op.Kind.String(), "Commit returned nil although a %s inside the commit failed (op %d)", op.Kind, op.Seq)
				return false
			}
		}
		w.Committed = would
		w.Commits++
		w.LastTxid++
		fr.attempt = nil
		w.tracef("commit ok live=%d", len(would.Pages))
		return fr.afterTx()
	}
	w.Aborts++
	w.tracef("commit -> error (%s)", allKinds(err))
	if fr.staleIOError("Commit", err) {
		return false
	}
	if !isIOErr(err) && !(w.Cfg.MaxPages > 0) {
		// an error without I/O cause on an unbounded file
		if !fr.sawIOFailureSince(seqBefore) {
			w.violate("commit-error", "commit-error:"+allKinds(err), "Commit failed without any failing I/O: %v", err)
			return false
		}
	}
	if fr.sawIOFailureSince(seqBefore) {
		fr.sawIOFailure = true
	}
	if fr.reached("commit/switched") {
		// the commit was durable and switched the in-memory state, but a later
		// truncate/mmap failed: Commit reports an error for a committed state.
		w.violate("post-durable-failure", "post-durable-failure", "Commit returned an error (%s) after the new state was made durable and switched in memory; the transaction is visible although Commit failed", allKinds(err))
		// whatever state the file is in now, Close must still release the path
		w.Disk.ClearFaults()
		f := w.F
		var cerr error
		// ... and transactions can still be begun and ended without leaking a lock
		if w.guard("Begin/Close(after a failed remap)", func() {
			if tx, err := f.BeginReadonly(); err == nil {
				tx.Close()
			}
			if tx, err := f.Begin(); err == nil {
				tx.Close()
			}
		}) {
			return false
		}
		if shared, pending, resFree := f.VerifLockState(); shared != 0 || pending || !resFree {
			w.failed = false
			w.violate("lock-leak", fmt.Sprintf("lock-leak:after-failed-remap:shared=%d,pending=%v,reservedFree=%v", shared, pending, resFree),
				"after a commit whose final mmap/truncate failed, beginning and ending transactions left the lock state shared=%d pending=%v reservedFree=%v", shared, pending, resFree)
			w.F = nil // File.Close would wait forever for the leaked lock
			return false
		}
		if !w.guard("File.Close(after a failed remap)", func() { cerr = f.Close() }) {
			w.F = nil
			if w.Disk.Locked() || !w.Disk.Closed() {
				w.failed = false
				w.violate("fclose-lock", "fclose-lock:after-failed-remap", "File.Close after a commit whose final mmap/truncate failed (returned %v) left the path locked=%v, file closed=%v", cerr, w.Disk.Locked(), w.Disk.Closed())
			} else {
				w.Res.Add("closes_after_failed_remap", 1)
			}
		}
		return false
	}
	// remember the attempt if its header write went out
	hdrOut := false
	failedBeforeHdr := false
	for _, op := range w.Disk.Log() {
		if op.Seq < seqBefore {
			continue
		}
		if op.Kind == simdisk.OpWrite && op.Off < int64(2*w.Cfg.PageSize) && len(op.Data) > 0 {
			hdrOut = true
		}
		if !op.OK && !hdrOut {
			failedBeforeHdr = true
		}
	}
	if hdrOut && !failedBeforeHdr {
		would.Txid = w.LastTxid + 1
		fr.attempt = would
		fr.attemptTainted = false
		fr.attemptFrom, fr.attemptTo = seqBefore, w.Disk.Seq()
	}
	return fr.afterTx()
}

func (fr *faultRun) sawIOFailureSince(seq int) bool {
	for _, op := range fr.w.Disk.Log() {
		if op.Seq >= seq && !op.OK {
			return true
		}
	}
	return fr.w.Disk.Injected() > 0
}

// afterTx: every transaction in the same process keeps seeing the last committed state.
func (fr *faultRun) afterTx() bool {
	w := fr.w
	shared, pending, resFree := w.F.VerifLockState()
	if shared != 0 || pending || !resFree {
		w.violate("lock-leak", fmt.Sprintf("lock-leak:fault:shared=%d,pending=%v,reservedFree=%v", shared, pending, resFree),
			"no transaction open but lock state is shared=%d pending=%v reservedFree=%v", shared, pending, resFree)
		return false
	}
	if !w.VerifyCommitted() {
		return false
	}
	// the allocator must still be consistent with the last committed state: no
	// page owned twice, and (without overflow area) no page leaked by a failed commit
	mon := w.Mon
	w.Mon.Partition, w.Mon.Coverage = true, true
	s := w.F.VerifSnapshot()
	ok := w.checkPartition(&s, "transaction under fault plan")
	w.Mon = mon
	return ok
}

func (fr *faultRun) reopenFaulty() bool {
	w := fr.w
	if !w.CloseFile() {
		return false
	}
	if fr.attempt != nil && fr.attemptTainted {
		// Would recovery pick the header of the failed-final-sync attempt, and
		// have pages written by that attempt been overwritten since?
		img := w.Disk.Snapshot()
		ps := int(w.Cfg.PageSize)
		if h, _ := NewestHeader(img, ps); h.Valid && h.Txid == fr.attempt.Txid {
			last := map[int64][]byte{}
			for _, op := range w.Disk.Log() {
				if op.Kind == simdisk.OpWrite && op.Seq >= fr.attemptFrom && op.Seq < fr.attemptTo && op.Off >= int64(2*ps) && len(op.Data) == ps {
					last[op.Off] = op.Data
				}
			}
			for off, data := range last {
				if int(off)+ps > len(img) || !bytes.Equal(img[off:int(off)+ps], data) {
					w.violate("failed-final-sync-attempt-overwritten", "failed-final-sync-attempt-overwritten",
						"the header of a commit attempt that failed only in its final sync (txid %d) is the newest valid header on disk, but page %d written by that attempt has been overwritten by a later failed transaction", h.Txid, off/int64(ps))
					return false
				}
			}
		}
	}
	for try := 0; ; try++ {
		opts := w.Cfg.Options()
		opts.Observer = w.Obs
		var f *txfile.File
		var err error
		w.Disk.Reopenable()
		if w.guard("Open", func() { f, err = txfile.VerifOpenWith(w.Disk, opts, w.Hook) }) {
			return false
		}
		if err == nil {
			w.F = f
			break
		}
		w.tracef("open -> error (%s)", allKinds(err))
		if w.Disk.Locked() || !w.Disk.Closed() {
			w.violate("open-fail-lock", "open-fail-lock", "failed Open left the path locked=%v closed=%v", w.Disk.Locked(), w.Disk.Closed())
			return false
		}
		if !isIOErr(err) && w.Disk.Injected() == 0 {
			w.violate("open-failed", "open-failed:"+allKinds(err), "Open failed without injected fault: %v", err)
			return false
		}
		fr.sawIOFailure = true
		if try >= 3 {
			w.Disk.ClearFaults()
		}
		if try > 6 {
			w.violate("open-failed", "open-failed-after-faults:"+allKinds(err), "Open keeps failing after the faults stopped: %v", err)
			return false
		}
	}
	w.Reopens++
	snap := w.F.VerifSnapshot()
	txid := snap.Headers[snap.MetaActive].Txid
	// after reopen: last success, or the attempt whose only failure was its final sync
	if fr.attempt != nil && txid == fr.attempt.Txid {
		w.Committed = fr.attempt
		fr.res.Add("reopened_to_failed_final_sync_attempt", 1)
	} else if txid != w.LastTxid {
		w.violate("reopen-txid", "reopen-txid", "after reopen the header txid is %d, expected %d (or %v)", txid, w.LastTxid, fr.attempt != nil)
		return false
	}
	w.LastTxid = txid
	landedOnTainted := fr.attempt != nil && w.Committed == fr.attempt && fr.attemptTainted
	fr.attempt = nil
	w.tracef("reopen ok txid=%d", txid)
	nv := len(fr.res.Violations)
	ok := fr.afterTx()
	if !ok && landedOnTainted && len(fr.res.Violations) > nv {
		// The header of a commit attempt that failed in its final sync is what
		// reopen finds, but later (failed) transactions recycled its pages.
		v := fr.res.Violations[len(fr.res.Violations)-1]
		if v.Rule == "committed-read" || v.Rule == "committed-read-access" || v.Rule == "committed-read-root" {
			v.Rule = "failed-final-sync-attempt-overwritten"
			v.Signature = "failed-final-sync-attempt-overwritten"
			v.Message = "reopen finds the header of a commit attempt that failed in its final sync, but a later failed transaction recycled and overwrote its pages: " + v.Message
		}
	}
	return ok
}

func runFaultCase(c *core.Case) *core.Result {
	res := &core.Result{}
	r := c.R
	cfg := GenConfig(r, 2)
	if c.Idx%7 == 3 {
		// SyncNone: nothing is promised about durability, but a failed write
		// still has to fail the commit
		cfg.SyncMode = int(txfile.SyncNone)
	}
	p := DefaultGen()
	p.Txs = 3 + r.Intn(8)
	p.OpsPerTx = 8
	p.PReopen = 15
	p.PCommit = 80
	p.WFlushPage, p.WFlushTx = 8, 5
	p.MaxAllocN = 40 // sometimes grow the file past the mapped size -> remap in commit
	prog := GenProgram(r, p)

	// dry run: count I/O calls per kind
	dres := &core.Result{}
	dw := NewWorld(cfg, Monitors{Property: "C08"}, core.NewRand(1, "dry", 0), dres)
	var counts [6]int
	if dw.Open() {
		dw.Run(prog)
		if dw.F != nil && dw.Tx == nil {
			dw.CloseFile()
		}
		counts = dw.Disk.Counts()
	}
	if dw.failed {
		// the fault free run already violates something: report it as is
		res.Violations = dres.Violations
		res.Status = core.Violated
		return res
	}

	kinds := []simdisk.IOKind{simdisk.KWrite, simdisk.KSync, simdisk.KTruncate, simdisk.KSize, simdisk.KMMap, simdisk.KReadAt}
	weights := []int{40, 30, 6, 8, 10, 6}
	var kind simdisk.IOKind
	for try := 0; try < 10; try++ {
		kind = kinds[r.Pick(weights)]
		if counts[kind] > 0 {
			break
		}
		kind = simdisk.KWrite
	}
	fault := simdisk.Fault{Kind: kind, Index: r.Intn(counts[kind] + 1), Burst: []int{1, 1, 2, 5, 1000}[r.Intn(5)]}
	switch kind {
	case simdisk.KWrite:
		fault.Mode = []simdisk.FaultMode{simdisk.FailBefore, simdisk.ShortThenError, simdisk.ShortNoError}[r.Intn(3)]
	case simdisk.KTruncate:
		fault.Mode = []simdisk.FaultMode{simdisk.FailBefore, simdisk.FailAfterEffect}[r.Intn(2)]
	}

	w := NewWorld(cfg, Monitors{Property: "C08", Content: true}, r, res)
	w.TraceOn = c.Verbose
	fr := &faultRun{w: w, res: res, c: c, points: map[string]int{}}
	w.Hook = fr.hook
	w.Disk.SetFaults([]simdisk.Fault{fault})
	w.tracef("fault plan: %s #%d burst=%d mode=%d (dry-run counts %v)", fault.Kind, fault.Index, fault.Burst, fault.Mode, counts)

	finish := func() *core.Result {
		if w.F != nil && w.Tx == nil {
			f := w.F
			w.guard("File.Close(final)", func() { f.Close() })
		}
		res.Key = w.Key()
		res.Nontrivial = w.Disk.Injected() > 0
		res.Add("faults_injected", int64(w.Disk.Injected()))
		res.Add("commits", int64(w.Commits))
		res.Add("aborts", int64(w.Aborts))
		res.Add("fault_"+fault.Kind.String(), 1)
		res.SetAdd("fault_plans", fmt.Sprintf("%s/burst%d/mode%d", fault.Kind, fault.Burst, fault.Mode))
		if fr.sawIOFailure {
			res.Add("cases_with_surfaced_io_error", 1)
		}
		if c.Idx%101 == 0 || c.Verbose {
			n := len(w.Trace)
			if n > 30 {
				n = 30
			}
			res.Sample = map[string]interface{}{"case": c.Idx, "config": cfg, "fault": fmt.Sprintf("%s #%d burst=%d mode=%d", fault.Kind, fault.Index, fault.Burst, fault.Mode), "trace_head": w.Trace[:n]}
		}
		return res
	}

	// the file is created fault free only if the fault index is beyond creation;
	// creation itself may fail -> then Open must fail cleanly and a retry must work.
	opened := false
	for try := 0; try < 8 && !opened; try++ {
		opts := cfg.Options()
		opts.Observer = w.Obs
		var f *txfile.File
		var err error
		w.Disk.Reopenable()
		if w.guard("Open", func() { f, err = txfile.VerifOpenWith(w.Disk, opts, w.Hook) }) {
			return finish()
		}
		if err == nil {
			w.F, opened = f, true
			break
		}
		w.tracef("open(create) -> error (%s)", allKinds(err))
		fr.sawIOFailure = true
		if w.Disk.Locked() || !w.Disk.Closed() {
			w.violate("open-fail-lock", "open-fail-lock", "failed Open left the path locked=%v closed=%v", w.Disk.Locked(), w.Disk.Closed())
			return finish()
		}
		if w.Disk.Injected() == 0 {
			w.violate("open-failed", "open-failed:"+allKinds(err), "Open failed without injected fault: %v", err)
			return finish()
		}
		// a failed creation leaves an unusable partial file behind: start over on an empty disk
		cnt := w.Disk.Counts()
		_ = cnt
		nd := simdisk.New("simdisk", cfg.DiskCap)
		w.Disk = nd
		if try >= 2 {
			continue // no faults any more
		}
		// keep the remaining burst going on the new disk
		if fault.Burst > 1 && fault.Burst < 1000 {
			f2 := fault
			f2.Index, f2.Burst = 0, fault.Burst-1
			nd.SetFaults([]simdisk.Fault{f2})
		}
	}
	if !opened {
		w.violate("open-failed", "open-failed-after-faults", "file creation keeps failing after the faults stopped")
		return finish()
	}
	snap := w.F.VerifSnapshot()
	w.LastTxid = snap.Headers[snap.MetaActive].Txid

	for _, op := range prog {
		if !fr.execFaulty(op) {
			return finish()
		}
		if fault.Burst == 1000 && w.Tx == nil && w.Disk.Injected() > 0 {
			// "until the end of the transaction" burst
			w.Disk.ClearFaults()
		}
	}
	if w.Tx != nil && !fr.abortTx() {
		return finish()
	}
	// failures stop: the same File must accept and commit new transactions
	w.Disk.ClearFaults()
	for round := 0; round < 2; round++ {
		if !w.Begin(txfile.TxOptions{}) {
			return finish()
		}
		cands := w.candWrite()
		if len(cands) > 0 {
			if !w.Write(cands[0], 0, 0) {
				return finish()
			}
		} else if !w.Alloc(1, 1) {
			return finish()
		}
		tx := w.Tx
		would := w.wouldBe()
		var err error
		if w.guard("Tx.Commit(after faults)", func() { err = tx.Commit() }) {
			return finish()
		}
		w.Tx, w.txPages = nil, nil
		if err != nil {
			if w.Cfg.MaxPages > 0 && !isIOErr(err) {
				// bounded file: the commit may fail for lack of space (the
				// error kind is not always OutOfMemory, see C03 note)
				w.tracef("commit after faults -> no space (%s)", allKinds(err))
				fr.res.Add("post_fault_commit_no_space", 1)
				break
			}
			w.violate("unusable-after-faults", "unusable-after-faults:"+allKinds(err), "after the failures stopped, commit #%d of a fresh transaction fails: %+v", round+1, err)
			return finish()
		}
		w.Committed = would
		w.LastTxid++
		fr.attempt = nil
		w.Commits++
		if !fr.afterTx() {
			return finish()
		}
	}
	fr.reopenFaulty()
	return finish()
}

func init() {
	core.Register(&core.Check{
		ID:          "C08",
		Level:       "fault_enumeration",
		Rule:        "case = PRNG history + one fault plan (kind in {write,sync,truncate,size,mmap,readat}, call index k from a fault-free dry run of the same program, burst in {1,2,5,until-end-of-transaction}, mode in {error-before-effect, short-write-then-error, short-write-no-error, error-after-effect}); oracle = no panic; Commit returning nil implies no failed write/sync in its window; a read transaction after every transaction sees the model state of the last successful commit; lock state idle between transactions; failed Open releases the path lock; after faults stop two fresh transactions commit; final reopen shows the last success or the attempt whose only failure was its final sync; distinct = trace hash; non-trivial = a fault was actually injected",
		Assumptions: append([]string{"the operation that surfaces a background write error is that transaction's Commit; nothing is demanded from a transaction that rolls back"}, simdiskAssumptions...),
		NumCases:    func(t string) int { return tierN(t, 3000, 120000) },
		Race:        func(t string, i int) bool { return i%50 == 0 },
		Run:         runFaultCase,
		Finalize: func(a *core.Aggregate) error {
			for _, k := range []string{"fault_write", "fault_sync", "fault_mmap", "fault_size", "fault_truncate"} {
				if a.Stats[k] == 0 {
					return fmt.Errorf("fault kind %s never explored", k)
				}
			}
			if a.Stats["cases_with_surfaced_io_error"] == 0 {
				return fmt.Errorf("no injected fault ever surfaced as an error")
			}
			return nil
		},
	})
}
