package filecheck

import (
	"fmt"
	"runtime"
	"sort"
	"sync/atomic"
	"time"

	txfile "github.com/elastic/go-txfile"

	"verif/core"
	"verif/simdisk"
)

// C01: crash atomicity and durability. The oracle works offline on the op log
// recorded by the simulated disk while a generated history was executed.

// crashWindow describes what header txids are allowed at an op log position.
type crashWindow struct {
	lastOK     uint64 // txid of the last commit that returned success
	inProgress uint64 // txid being committed (0: none)
	inOpen     bool   // inside an Open that may run maintenance transactions
}

// recordHistory runs prog with commit markers and state recording.
func recordHistory(c *core.Case, cfg Config, prog []Op, res *core.Result, prop string) *World {
	w := NewWorld(cfg, Monitors{Property: prop, Content: true}, c.R, res)
	w.KeepStates = true
	w.Markers = true
	w.TraceOn = c.Verbose
	if c.Idx%5 == 2 {
		// writer-ahead schedule: before each of the two sync requests of a commit
		// the background writer is given the time to execute every write that
		// has been scheduled so far, so the sync request finds an empty queue
		// (schedule perturbation only; no verdict depends on it)
		var emptySyncs int64
		w.Hook = func(name string, arg int) {
			switch name {
			case "commit/before-data-sync", "commit/before-meta-sync":
				WaitWriterIdle(w.Disk)
			case "writer/batch":
				if arg == 0 {
					atomic.AddInt64(&emptySyncs, 1)
				}
			}
		}
		defer func() { res.Add("sync_commands_without_writes", atomic.LoadInt64(&emptySyncs)) }()
		res.Add("writer_ahead_histories", 1)
	}
	if !w.Open() {
		return w
	}
	w.Disk.Marker("created", int64(w.LastTxid))
	w.Run(prog)
	if !w.failed && w.F != nil {
		w.CloseFile()
	}
	return w
}

// WaitWriterIdle yields until the simulated disk saw no new I/O call for a few
// consecutive rounds (bounded; used to perturb schedules only).
func WaitWriterIdle(d *simdisk.Disk) {
	prev, stable := d.Seq(), 0
	for i := 0; i < 400 && stable < 4; i++ {
		runtime.Gosched()
		time.Sleep(10 * time.Microsecond)
		if cur := d.Seq(); cur == prev && !d.InFlight() {
			stable++
		} else {
			prev, stable = cur, 0
		}
	}
}

// imageChecker opens crash images and compares them with the recorded states.
type imageChecker struct {
	c          *core.Case
	cfg        Config
	states     map[uint64]*State
	res        *core.Result
	prop       string
	probeEvery int
	resized    bool
	n          int
}

// check opens the image; allowed lists the acceptable header txids.
func (ic *imageChecker) check(img []byte, allowed []uint64, what string) bool {
	ic.n++
	sub := &core.Result{}
	w := NewWorld(ic.cfg, Monitors{Property: ic.prop, Content: true, LockIdle: true, Partition: true, Coverage: !ic.resized}, ic.c.R, sub)
	capacity := ic.cfg.DiskCap
	w.Disk = simdisk.FromImage("crash-image", img, capacity)
	w.Disk.SetRecording(false)
	fail := func(rule, format string, args ...interface{}) bool {
		msg := fmt.Sprintf(format, args...)
		ic.res.Violate(ic.prop, rule, rule, what+": "+msg, map[string]interface{}{"config": ic.cfg, "image_bytes": len(img), "allowed_txids": allowed})
		return false
	}
	// which state does the image hold according to an independent header decode?
	hdr, _ := NewestHeader(img, int(ic.cfg.PageSize))
	if !hdr.Valid {
		return fail("no-valid-header", "no valid header in crash image")
	}
	st := ic.states[hdr.Txid]
	okTxid := false
	for _, a := range allowed {
		if a == hdr.Txid {
			okTxid = true
		}
	}
	if !okTxid {
		return fail("txid-not-allowed", "crash image holds header txid %d, allowed %v", hdr.Txid, allowed)
	}
	if st == nil {
		return fail("harness-no-state", "no recorded state for txid %d", hdr.Txid)
	}
	w.Committed = st.clone()
	// the size limit in effect is the one stored in the image
	w.Cfg.MaxPages, w.Cfg.MaxSizeOdd = int(hdr.MaxSize/uint64(ic.cfg.PageSize)), 0
	if ic.resized {
		w.NoCoverage = true
	}
	if !w.Open() { // checks lock idle, contents == state, partition
		ic.adopt(sub, what)
		return false
	}
	if w.LastTxid != hdr.Txid {
		w.CloseFile()
		return fail("older-header-chosen", "open recovered txid %d but the newest valid header is %d", w.LastTxid, hdr.Txid)
	}
	ic.res.Add("images_opened", 1)
	if ic.probeEvery > 0 && ic.n%ic.probeEvery == 0 {
		// the recovered file is fully operational
		ok := w.Begin(txfile.TxOptions{}) && w.Alloc(2, 1)
		if ok {
			if cw := w.candWrite(); len(cw) > 0 {
				ok = w.Write(cw[ic.n%len(cw)], ic.n%3, 0)
			}
		}
		if ok {
			if cf := w.candFree(); len(cf) > 1 {
				ok = w.Free(cf[ic.n%len(cf)])
			}
		}
		ok = ok && w.End(OCommit)
		ok = ok && w.Begin(txfile.TxOptions{}) && w.Alloc(1, 2) && w.End(OCommit)
		ok = ok && w.Reopen()
		if !ok {
			ic.adopt(sub, what+" (recovery probe)")
			if w.F != nil && w.Tx == nil {
				w.CloseFile()
			}
			return false
		}
		ic.res.Add("recovery_probes", 1)
	}
	if !w.CloseFile() {
		ic.adopt(sub, what)
		return false
	}
	return true
}

func (ic *imageChecker) adopt(sub *core.Result, what string) {
	for _, v := range sub.Violations {
		v.Message = what + ": " + v.Message
		v.Property = ic.prop
		ic.res.Violations = append(ic.res.Violations, v)
	}
	ic.res.Status = core.Violated
}

// subsets enumerates the lost-write subsets for n pending units.
func subsets(r *core.Rand, n int, fullLimit int, samples int) [][]bool {
	var out [][]bool
	mk := func(f func(i int) bool) {
		s := make([]bool, n)
		for i := range s {
			s[i] = f(i)
		}
		out = append(out, s)
	}
	if n == 0 {
		return [][]bool{{}}
	}
	if n <= fullLimit {
		for m := 0; m < 1<<uint(n); m++ {
			mm := m
			mk(func(i int) bool { return mm&(1<<uint(i)) != 0 })
		}
		return out
	}
	mk(func(i int) bool { return false })
	mk(func(i int) bool { return true })
	for j := 0; j < n; j++ {
		jj := j
		mk(func(i int) bool { return i != jj })
		mk(func(i int) bool { return i == jj })
	}
	for s := 0; s < samples; s++ {
		mk(func(i int) bool { return r.Intn(2) == 0 })
	}
	// prefixes (writes persisted in order up to a point)
	for j := 1; j < n; j++ {
		jj := j
		mk(func(i int) bool { return i < jj })
	}
	return out
}

func runCrashCase(c *core.Case) *core.Result {
	res := &core.Result{}
	r := c.R
	cfg := GenConfig(r, 2)
	cfg.DiskCap = 1 << 20
	if cfg.MaxPages > 0 {
		if need := (cfg.MaxPages + 32) * int(cfg.PageSize); need > cfg.DiskCap {
			cfg.DiskCap = need
		}
	}
	p := DefaultGen()
	thorough := c.Tier == "thorough"
	p.Txs = 3 + r.Intn(6)
	if thorough {
		p.Txs = 5 + r.Intn(25)
	}
	p.OpsPerTx = 8
	p.PReopen = 8
	p.PCommit = 80
	p.WFlushPage, p.WFlushTx, p.WCheckpt = 8, 5, 4
	p.MaxAllocN = 5
	prog := GenProgram(r, p)
	resized := c.Idx%6 == 4
	if resized {
		// crash the open-time maintenance transactions too: reopen with a changed max size
		var np []Op
		for _, op := range prog {
			np = append(np, op)
			if (op.K == OCommit || op.K == ORollback || op.K == OClose) && r.Chance(1, 4) {
				np = append(np, Op{K: OReopenResize, A: r.Intn(100), B: r.Intn(2)})
			}
		}
		prog = np
		res.Add("histories_with_resize_on_open", 1)
	}
	if c.Idx%12 == 7 {
		// shrink on open with a free region at the end of the file beyond the new
		// limit: the second (optional) maintenance transaction releases it
		// (a pre-sized meta area keeps the freed pages adjacent to the end marker)
		cfg = Config{PageSize: 1024, DiskCap: 1 << 20, SyncMode: r.Intn(3), InitMetaArea: []uint32{16, 32}[r.Intn(2)]}
		if r.Chance(1, 2) {
			cfg.MaxPages = 240
		}
		n := 90 + r.Intn(60)
		k := 20 + r.Intn(n-70)
		prog = []Op{
			{K: OBegin}, {K: OAlloc, A: n, B: 1}, {K: OCommit},
			// alternate frees and re-allocations, so that meta pages hold stale
			// free lists naming pages that are live again
			{K: OBegin}, {K: OFreeTop, A: k}, {K: OCommit},
			{K: OBegin}, {K: OAlloc, A: k / 2, B: 1}, {K: OCommit},
			{K: OBegin}, {K: OFreeTop, A: k / 3}, {K: OCommit},
			{K: OBegin}, {K: OAlloc, A: k / 4, B: 1}, {K: OCommit},
			{K: OBegin}, {K: OFreeTop, A: k/2 + r.Intn(8)}, {K: OCommit},
			{K: OReopenResize, A: 1, B: r.Intn(2)},
			{K: OBegin}, {K: OAlloc, A: 3, B: 1}, {K: OWrite, A: 7, B: 1}, {K: OCommit},
			{K: OBegin}, {K: OFree, A: 5}, {K: OAlloc, A: 2, B: 1}, {K: OCommit},
		}
		resized = true
		res.Add("histories_with_shrink_release_on_open", 1)
	}
	big := c.Idx%48 == 5
	if big {
		// transactions exceeding the writer's batch buffer (1024 messages):
		// boundaries are sampled, subsets restricted (see below)
		cfg = Config{PageSize: 1024, DiskCap: 8 << 20, SyncMode: r.Intn(3), InitMetaArea: []uint32{0, 16}[r.Intn(2)]}
		n := 1100 + r.Intn(1900)
		prog = []Op{
			{K: OBegin}, {K: OAlloc, A: 3, B: 1}, {K: OCommit},
			{K: OBegin}, {K: OAlloc, A: n, B: 1}, {K: OWrite, A: 1, B: 0}, {K: OCommit},
			{K: OBegin}, {K: OWrite, A: 5, B: 0}, {K: OWrite, A: 77, B: 1}, {K: OFree, A: 9}, {K: OAlloc, A: 40, B: 1}, {K: OCommit},
		}
		res.Add("big_transaction_histories", 1)
	}

	w := recordHistory(c, cfg, prog, res, "C01")
	if w.failed {
		return res
	}
	ops := w.Disk.Log()

	ic := &imageChecker{c: c, cfg: cfg, states: w.States, res: res, prop: "C01", probeEvery: 7, resized: resized}
	ps := int(cfg.PageSize)
	fullLimit, samples := 6, 6
	if thorough {
		fullLimit, samples = 8, 16
	}

	// find the end of file creation
	start := -1
	for i, op := range ops {
		if op.Kind == simdisk.OpMarker && op.Marker == "created" {
			start = i
			break
		}
	}
	if start < 0 {
		res.Status, res.Note = core.Inconclusive, "no-created-marker"
		return res
	}
	walker := simdisk.NewWalker(ops, ps, nil)
	win := crashWindow{}
	boundaries, images := 0, 0
	inCommitOld, inCommitNew := 0, 0
	tornFallbacks := 0
	for !walker.Done() {
		op := walker.Step()
		if op.Kind == simdisk.OpMarker {
			switch op.Marker {
			case "created":
				win.lastOK = uint64(op.Arg)
			case "commit-begin":
				win.inProgress = uint64(op.Arg)
			case "commit-ok":
				win.lastOK, win.inProgress = uint64(op.Arg), 0
			case "commit-fail":
				win.inProgress = 0
			case "open-begin":
				win.inOpen = true
			case "open-ok":
				win.lastOK, win.inOpen = uint64(op.Arg), false
			}
			continue // a marker does not change the set of images
		}
		if walker.Pos() <= start {
			continue
		}
		if big {
			// sample: boundaries next to sync and header writes, plus every 97th
			near := false
			for d := -2; d <= 1; d++ {
				if i := walker.Pos() + d; i >= 0 && i < len(ops) {
					if ops[i].Kind == simdisk.OpSync || (ops[i].Kind == simdisk.OpWrite && len(ops[i].Data) < ps) {
						near = true
					}
				}
			}
			if !near && walker.Pos()%97 != 0 {
				continue
			}
		}
		boundaries++
		allowed := []uint64{win.lastOK}
		if win.inProgress != 0 {
			allowed = append(allowed, win.inProgress)
		}
		if win.inOpen {
			// every header txid an open-time maintenance transaction may have written (same contents)
			for t := win.lastOK + 1; t <= win.lastOK+2; t++ {
				if w.States[t] != nil {
					allowed = append(allowed, t)
				}
			}
		}
		n := len(walker.Pending)
		hdrUnit := -1
		for i, u := range walker.Pending {
			if u.IsSubPage(ps) {
				hdrUnit = i
			}
		}
		subs := subsets(r, n, fullLimit, samples)
		if n > 40 {
			// none, all, three prefixes, four PRNG subsets
			subs = subs[:0]
			mk := func(f func(i int) bool) {
				s := make([]bool, n)
				for i := range s {
					s[i] = f(i)
				}
				subs = append(subs, s)
			}
			mk(func(int) bool { return false })
			mk(func(int) bool { return true })
			for _, cutAt := range []int{n / 4, n / 2, n - 1} {
				cutAt := cutAt
				mk(func(i int) bool { return i < cutAt })
			}
			for k := 0; k < 4; k++ {
				mk(func(int) bool { return r.Intn(2) == 0 })
			}
		}
		for si, sub := range subs {
			cuts := []int{-1}
			if hdrUnit >= 0 && sub[hdrUnit] {
				// torn header write: every byte cut (thorough) or a sample
				cuts = cuts[:0]
				if thorough || si%5 == 0 {
					for cut := 0; cut <= HdrSize; cut++ {
						if thorough || cut < 2 || cut > HdrSize-3 || cut%11 == si%11 {
							cuts = append(cuts, cut)
						}
					}
				} else {
					cuts = []int{-1, 1 + r.Intn(HdrSize-1)}
				}
			}
			for _, cut := range cuts {
				sub, cut := sub, cut
				img := walker.Image(func(i int) (bool, int) {
					if i == hdrUnit {
						return sub[i], cut
					}
					return sub[i], -1
				})
				images++
				what := fmt.Sprintf("crash at op boundary %d (pending units %d, subset #%d, header cut %d)", walker.Pos(), n, si, cut)
				if !ic.check(img, allowed, what) {
					res.Add("images", int64(images))
					res.Key = w.Key()
					return res
				}
				if win.inOpen {
					res.Add("images_inside_open_maintenance_window", 1)
					if h, _ := NewestHeader(img, ps); h.Txid != win.lastOK {
						res.Add("recovered_maintenance_tx_header", 1)
					}
				}
				if win.inProgress != 0 {
					h, _ := NewestHeader(img, ps)
					if h.Txid == win.inProgress {
						inCommitNew++
					} else {
						inCommitOld++
					}
					if cut >= 0 && cut < HdrSize && h.Txid == win.lastOK {
						tornFallbacks++
					}
				}
			}
		}
	}
	res.Key = w.Key()
	res.Nontrivial = w.Commits >= 2 && images > 10
	res.Add("images", int64(images))
	res.Add("boundaries", int64(boundaries))
	res.Add("commits", int64(w.Commits))
	res.Add("recovered_old_inside_commit_window", int64(inCommitOld))
	res.Add("recovered_new_inside_commit_window", int64(inCommitNew))
	res.Add("torn_header_fell_back", int64(tornFallbacks))
	res.Max("ops_in_history", int64(len(ops)))
	if c.Idx%13 == 0 || c.Verbose {
		var txids []uint64
		for t := range w.States {
			txids = append(txids, t)
		}
		sort.Slice(txids, func(i, j int) bool { return txids[i] < txids[j] })
		n := len(w.Trace)
		if n > 25 {
			n = 25
		}
		res.Sample = map[string]interface{}{"case": c.Idx, "config": cfg, "io_ops": len(ops), "images": images, "state_txids": txids, "trace_head": w.Trace[:n]}
	}
	return res
}

func init() {
	core.Register(&core.Check{
		ID:          "C01",
		Level:       "fault_enumeration",
		Rule:        "case = one PRNG history (transactions with alloc/overwrite/free/flush/checkpoint/rollback/reopen over the configuration lattice) executed on the simulated disk with commit-begin/commit-ok markers; for EVERY I/O boundary of the recorded op log after file creation and for lost-write subsets of the writes pending since the last successful sync (all 2^n for n<=6 (quick) / 8 (thorough); otherwise none, all, each single one dropped, each single one alone, in-order prefixes, PRNG subsets), header write additionally torn at byte cuts (all 85 in thorough, sample in quick): the crash image is opened through the normal open path; oracle = open succeeds, header txid in {last successful commit} or {commit in progress}, newest valid header chosen, contents/root == recorded model state of that txid, lock idle, allocator partition disjoint from live pages, every 7th image: two follow-up transactions + reopen leave untouched live pages intact; distinct = history trace hash; non-trivial = >=2 commits and >10 images",
		Assumptions: simdiskAssumptions,
		NumCases:    func(t string) int { return tierN(t, 96, 480) },
		Race:        func(t string, i int) bool { return t == "thorough" && i%100 == 0 },
		CaseTimeout: func(t string) time.Duration { return 15 * time.Minute },
		Run:         runCrashCase,
		Finalize: func(a *core.Aggregate) error {
			if a.Stats["recovered_old_inside_commit_window"] == 0 || a.Stats["recovered_new_inside_commit_window"] == 0 {
				return fmt.Errorf("crash images inside commit windows did not recover to both old and new state")
			}
			if a.Stats["torn_header_fell_back"] == 0 {
				return fmt.Errorf("no torn header image fell back to the previous state")
			}
			return nil
		},
	})
}
