package filecheck

import (
	"bytes"
	"encoding/binary"
	"fmt"
	"runtime"
	"sort"
	"strings"
	"sync"
	"sync/atomic"
	"time"

	"github.com/anishathalye/porcupine"

	txfile "github.com/elastic/go-txfile"
	"github.com/elastic/go-txfile/txerr"

	"verif/core"
	"verif/simdisk"
)

// Concurrent engine used by C02 (snapshot isolation) and C09 (locking).
//
// Writers create states identified by a commit sequence number j: every page
// written carries Stamp(id, j) and a dedicated root page carries j. A state is
// published (thread safe map) before Commit is called, so a reader observing
// root=j can always look the expected version vector up. Readers scan the
// whole state twice (after Begin, before Close).

type verVec map[txfile.PageID]uint64 // page -> version (commit seq that wrote it)

type stressCfg struct {
	Readers, Writers int
	TxPerWriter      int
	Closer           bool // a goroutine closes the file while transactions are open
	Faults           bool // inject failing syncs (failing commits)
	Perturb          bool // random yields at hook points
	Resize           bool // start with an open that updates the max size
	HoldMax          int  // max yields a reader holds its transaction
	COW              bool // half of the write transactions replace pages (alloc new + free old) instead of overwriting
}

type histOp struct {
	client   int
	isCommit bool
	seq      uint64
	ok       bool
	call     int64
	ret      int64
}

type stress struct {
	c    *core.Case
	cfg  Config
	sc   stressCfg
	res  *core.Result
	prop string

	disk *simdisk.Disk
	f    *txfile.File
	ps   int
	root txfile.PageID

	clock int64

	mu      sync.Mutex
	states  map[uint64]verVec
	invalid map[uint64]string // seq -> why it must never be visible
	viol    []*core.Violation
	hist    []histOp
	events  map[string]int64 // (reader event @ writer point) coverage

	seq         uint64 // commit sequence generator
	writerPoint atomic.Value
	activeRW    int32
	maxRW       int32
	stop        int32

	// begin gate: serialises "may I begin" with the closer's announcement
	gate    sync.RWMutex
	closing bool

	deadlocked                          chan struct{}
	progress                            []int64 // per worker step counters
	inCall                              []int32 // per worker: inside a txfile call
	remaps                              int64
	commitsOK, commitsFailed, rollbacks int64
	readerTx, scans                     int64
}

func (s *stress) tick() int64 { return atomic.AddInt64(&s.clock, 1) }

func (s *stress) violate(rule, sig, format string, args ...interface{}) {
	msg := fmt.Sprintf(format, args...)
	s.mu.Lock()
	if len(s.viol) < 5 {
		s.viol = append(s.viol, &core.Violation{Property: s.prop, Rule: rule, Signature: sig, Message: msg, Witness: map[string]interface{}{"config": s.cfg, "stress": s.sc}})
	}
	s.mu.Unlock()
	atomic.StoreInt32(&s.stop, 1)
}

func (s *stress) stopped() bool { return atomic.LoadInt32(&s.stop) != 0 }

// event records (reader event @ writer commit point) in a go-routine local
// map (no synchronisation with other workers).
func (s *stress) event(local map[string]int64, ev string) {
	p, _ := s.writerPoint.Load().(string)
	if p == "" {
		p = "idle"
	}
	local[ev+"@"+p]++
}

func (s *stress) hook(name string, arg int) {
	switch {
	case strings.HasPrefix(name, "commit/"):
		s.writerPoint.Store(strings.TrimPrefix(name, "commit/"))
		if name == "commit/exit" {
			s.writerPoint.Store("idle")
		}
		if name == "commit/remapped" {
			// counted only if the mapping really changed: see writer
		}
		if s.sc.Perturb {
			r := int(atomic.AddInt64(&s.clock, 0)) // cheap varying value
			n := (r * 7919) % 40
			for i := 0; i < n; i++ {
				runtime.Gosched()
			}
		}
	case name == "begin/locked" && arg == 0:
		n := atomic.AddInt32(&s.activeRW, 1)
		for {
			m := atomic.LoadInt32(&s.maxRW)
			if n <= m || atomic.CompareAndSwapInt32(&s.maxRW, m, n) {
				break
			}
		}
		if n > 1 {
			s.violate("two-writers", "two-writers", "%d write transactions are active at the same time", n)
		}
	case name == "tx/unlock" && arg == 0:
		atomic.AddInt32(&s.activeRW, -1)
	}
}

// guard converts a panic inside a worker into a violation.
func (s *stress) guard(what string) {
	if p := recover(); p != nil {
		buf := make([]byte, 16<<10)
		buf = buf[:runtime.Stack(buf, false)]
		s.violate("panic", "panic:"+core.PanicSig(p, string(buf)), "panic in %s: %v\n%s", what, p, core.TrimStack(string(buf)))
	}
}

func (s *stress) expected(id txfile.PageID, ver uint64) []byte { return Stamp(id, ver, s.ps) }

// scan reads the root and every page of the state it names. Returns the seq observed.
func (s *stress) scan(tx *txfile.Tx, who string) (uint64, bool) {
	rp, err := tx.RootPage()
	if err != nil || rp == nil {
		s.violate("reader-root", "reader-root", "%s: root page not accessible: %v", who, err)
		return 0, false
	}
	b, err := rp.Bytes()
	if err != nil || len(b) < 16 {
		s.violate("reader-root", "reader-root", "%s: root page not readable: %v", who, err)
		return 0, false
	}
	j := binary.LittleEndian.Uint64(b[8:])
	if b[0] == simdisk.Poison && b[1] == simdisk.Poison && b[len(b)-1] == simdisk.Poison {
		s.violate("reader-poison", "reader-poison", "%s: reads poisoned memory (use of an unmapped view) in root page", who)
		return 0, false
	}
	s.mu.Lock()
	st, ok := s.states[j]
	why, bad := s.invalid[j]
	s.mu.Unlock()
	if !ok {
		s.violate("reader-unknown-state", "reader-unknown-state", "%s: root page names state %d which no transaction ever tried to commit (id=%d)", who, j, binary.LittleEndian.Uint64(b))
		return 0, false
	}
	if bad {
		s.violate("reader-sees-aborted", "reader-sees-aborted:"+why, "%s: observes state %d of a transaction that %s", who, j, why)
		return 0, false
	}
	if !bytes.Equal(b, s.expected(rp.ID(), j)) {
		s.violate("reader-mixed", "reader-mixed-root", "%s: root page is not the stamp of state %d", who, j)
		return 0, false
	}
	rootID := rp.ID()
	if v, ok := st[rootID]; !ok || v != j {
		s.violate("reader-mixed", "reader-mixed-root", "%s: root page %d is not the root of state %d", who, rootID, j)
		return 0, false
	}
	for id, ver := range st {
		if id == rootID {
			continue
		}
		pg, err := tx.Page(id)
		if err != nil {
			s.violate("reader-page", "reader-page", "%s: page %d of state %d not accessible: %v", who, id, j, err)
			return j, false
		}
		pb, err := pg.Bytes()
		if err != nil {
			s.violate("reader-page", "reader-page", "%s: page %d of state %d not readable: %v", who, id, j, err)
			return j, false
		}
		if !bytes.Equal(pb, s.expected(id, ver)) {
			gotID, gotVer := binary.LittleEndian.Uint64(pb), binary.LittleEndian.Uint64(pb[8:])
			poison := pb[0] == simdisk.Poison && pb[len(pb)-1] == simdisk.Poison
			rule := "reader-mixed"
			if poison {
				rule = "reader-poison"
			}
			s.violate(rule, rule, "%s: in state %d page %d must have version %d but holds stamp(id=%d,ver=%d) poison=%v", who, j, id, ver, gotID, gotVer, poison)
			return j, false
		}
	}
	atomic.AddInt64(&s.scans, 1)
	return j, true
}

func (s *stress) reader(id int, r *core.Rand, wg *sync.WaitGroup) {
	defer wg.Done()
	defer s.guard(fmt.Sprintf("reader %d", id))
	who := fmt.Sprintf("reader %d", id)
	var local []histOp
	evs := map[string]int64{}
	defer func() {
		s.mu.Lock()
		s.hist = append(s.hist, local...)
		for k, v := range evs {
			s.events[k] += v
		}
		s.mu.Unlock()
	}()
	for !s.stopped() {
		s.gate.RLock()
		if s.closing {
			s.gate.RUnlock()
			return
		}
		call := s.tick()
		s.event(evs, "begin-call")
		atomic.StoreInt32(&s.inCall[id], 1)
		tx, err := s.f.BeginReadonly()
		atomic.StoreInt32(&s.inCall[id], 0)
		ret := s.tick()
		s.gate.RUnlock()
		if err != nil {
			s.violate("beginro-failed", "beginro-failed", "%s: BeginReadonly failed: %v", who, err)
			return
		}
		s.event(evs, "begin-return")
		j, ok := s.scan(tx, who)
		if ok {
			local = append(local, histOp{client: id, seq: j, call: call, ret: ret})
			hold := r.Intn(s.sc.HoldMax + 1)
			for i := 0; i < hold && !s.stopped(); i++ {
				runtime.Gosched()
			}
			s.event(evs, "rescan")
			j2, ok2 := s.scan(tx, who+" (second scan)")
			if ok2 && j2 != j {
				s.violate("reader-view-changed", "reader-view-changed", "%s: view changed from state %d to %d within one transaction", who, j, j2)
			}
		}
		s.event(evs, "close")
		atomic.StoreInt32(&s.inCall[id], 1)
		cerr := tx.Close()
		atomic.StoreInt32(&s.inCall[id], 0)
		if cerr != nil {
			s.violate("close-ro", "close-ro", "%s: Close failed: %v", who, cerr)
			return
		}
		atomic.AddInt64(&s.readerTx, 1)
		atomic.AddInt64(&s.progress[id], 1)
		if n := r.Intn(20); n > 10 {
			for i := 0; i < n; i++ {
				runtime.Gosched()
			}
		}
	}
}

func (s *stress) writer(id int, r *core.Rand, wg *sync.WaitGroup) {
	defer wg.Done()
	defer s.guard(fmt.Sprintf("writer %d", id))
	who := fmt.Sprintf("writer %d", id)
	var local []histOp
	defer func() {
		s.mu.Lock()
		s.hist = append(s.hist, local...)
		s.mu.Unlock()
	}()
	for n := 0; n < s.sc.TxPerWriter && !s.stopped(); n++ {
		s.gate.RLock()
		if s.closing {
			s.gate.RUnlock()
			return
		}
		atomic.StoreInt32(&s.inCall[id], 1)
		tx, err := s.f.BeginWith(txfile.TxOptions{WALLimit: uint([]int{0, 1, 3, 1000}[r.Intn(4)])})
		atomic.StoreInt32(&s.inCall[id], 0)
		s.gate.RUnlock()
		if err != nil {
			s.violate("begin-failed", "begin-failed", "%s: Begin failed: %v", who, err)
			return
		}
		// current state from the file itself
		j0, ok := s.scan(tx, who+" (own view)")
		if !ok {
			tx.Close()
			return
		}
		s.mu.Lock()
		cur := s.states[j0]
		s.mu.Unlock()
		j := atomic.AddUint64(&s.seq, 1)
		next := make(verVec, len(cur)+8)
		for k, v := range cur {
			next[k] = v
		}
		fail := func(what string, err error) {
			s.violate("writer-op", "writer-op:"+what, "%s: %s failed: %v", who, what, err)
			tx.Close()
		}
		write := func(pid txfile.PageID) bool {
			pg, err := tx.Page(pid)
			if err == nil {
				err = pg.SetBytes(s.expected(pid, j))
			}
			if err != nil {
				fail("write", err)
				return false
			}
			next[pid] = j
			return true
		}
		// The root always carries the new seq. In copy-on-write mode no committed
		// page is overwritten at all (no overwrite mapping change): the root and
		// some pages are replaced by freshly allocated pages and the old ones freed.
		rootID := tx.Root()
		cow := s.sc.COW && r.Chance(1, 2)
		replace := func(old txfile.PageID) (txfile.PageID, bool) {
			np, err := tx.Alloc()
			if err != nil {
				if txerr.Is(txfile.OutOfMemory, err) {
					return 0, false
				}
				fail("alloc", err)
				return 0, false
			}
			if err := np.SetBytes(s.expected(np.ID(), j)); err != nil {
				fail("write-new", err)
				return 0, false
			}
			op, err := tx.Page(old)
			if err == nil {
				err = op.Free()
			}
			if err != nil {
				fail("free", err)
				return 0, false
			}
			delete(next, old)
			next[np.ID()] = j
			return np.ID(), true
		}
		if cow {
			nr, ok := replace(rootID)
			if !ok {
				if s.stopped() {
					return
				}
				cow = false
			} else {
				tx.SetRoot(nr)
				rootID = nr
			}
		}
		if !cow {
			if !write(rootID) {
				return
			}
		}
		var ids []txfile.PageID
		for k := range cur {
			if k != rootID && hasKey(next, k) {
				ids = append(ids, k)
			}
		}
		sortIDs(ids)
		nOps := 1 + r.Intn(8)
		flushed := false
		for o := 0; o < nOps; o++ {
			pick := r.Pick([]int{50, 15, 12, 6, 5, 4})
			if cow && (pick == 0 || pick == 4) {
				// replace a page instead of overwriting it
				if len(ids) > 0 {
					pid := ids[r.Intn(len(ids))]
					if v, ok := next[pid]; ok && v != j {
						if _, ok := replace(pid); !ok && s.stopped() {
							return
						}
					}
				}
				continue
			}
			switch pick {
			case 0: // overwrite
				if len(ids) > 0 {
					pid := ids[r.Intn(len(ids))]
					if next[pid] == j || !hasKey(next, pid) {
						continue // already written (maybe flushed) or freed
					}
					if !write(pid) {
						return
					}
				}
			case 1: // alloc
				k := 1 + r.Intn(4)
				if r.Chance(1, 12) && len(next) < 500 {
					k = 40 + r.Intn(60) // grow past the mapped size
				}
				pgs, err := tx.AllocN(k)
				if err != nil {
					if txerr.Is(txfile.OutOfMemory, err) {
						continue
					}
					fail("alloc", err)
					return
				}
				for _, pg := range pgs {
					if err := pg.SetBytes(s.expected(pg.ID(), j)); err != nil {
						fail("write-new", err)
						return
					}
					next[pg.ID()] = j
				}
			case 2: // free
				if len(ids) > 3 {
					pid := ids[r.Intn(len(ids))]
					if v, ok := next[pid]; ok && v != j {
						pg, err := tx.Page(pid)
						if err == nil {
							err = pg.Free()
						}
						if err != nil {
							fail("free", err)
							return
						}
						delete(next, pid)
					}
				}
			case 3:
				if err := tx.Flush(); err != nil {
					if txerr.Is(txfile.OutOfMemory, err) {
						continue
					}
					fail("flush", err)
					return
				}
				flushed = true
				_ = flushed
				// flushed pages can not be written again in this tx: mark all as written
				o = nOps
			case 4:
				if err := tx.CheckpointWAL(); err != nil {
					fail("checkpoint", err)
					return
				}
			case 5:
				for i := 0; i < r.Intn(30); i++ {
					runtime.Gosched()
				}
			}
		}
		s.mu.Lock()
		s.states[j] = next
		s.mu.Unlock()

		switch r.Pick([]int{75, 15, 10}) {
		case 0:
			mappedBefore := 0
			if s.sc.Writers == 1 && !s.sc.Closer {
				mappedBefore = s.f.VerifSnapshot().MappedLen
			}
			call := s.tick()
			atomic.StoreInt32(&s.inCall[id], 1)
			err := tx.Commit()
			atomic.StoreInt32(&s.inCall[id], 0)
			ret := s.tick()
			if err != nil {
				s.mu.Lock()
				s.invalid[j] = "failed to commit"
				s.mu.Unlock()
				atomic.AddInt64(&s.commitsFailed, 1)
				if !(isIOErr(err) || s.cfg.MaxPages > 0) {
					s.violate("commit-error", "commit-error:"+allKinds(err), "%s: Commit failed: %+v", who, err)
					return
				}
			} else {
				atomic.AddInt64(&s.commitsOK, 1)
				if s.sc.Writers == 1 && !s.sc.Closer {
					if m := s.f.VerifSnapshot().MappedLen; m != mappedBefore {
						atomic.AddInt64(&s.remaps, 1)
					}
				}
			}
			local = append(local, histOp{client: 1000 + id, isCommit: true, seq: j, ok: err == nil, call: call, ret: ret})
		case 1:
			s.mu.Lock()
			s.invalid[j] = "was rolled back"
			s.mu.Unlock()
			atomic.StoreInt32(&s.inCall[id], 1)
			err := tx.Rollback()
			atomic.StoreInt32(&s.inCall[id], 0)
			if err != nil {
				s.violate("abort-error", "abort-error", "%s: Rollback failed: %v", who, err)
				return
			}
			atomic.AddInt64(&s.rollbacks, 1)
		case 2:
			s.mu.Lock()
			s.invalid[j] = "was closed without commit"
			s.mu.Unlock()
			atomic.StoreInt32(&s.inCall[id], 1)
			err := tx.Close()
			atomic.StoreInt32(&s.inCall[id], 0)
			if err != nil {
				s.violate("abort-error", "abort-error", "%s: Close failed: %v", who, err)
				return
			}
			atomic.AddInt64(&s.rollbacks, 1)
		}
		atomic.AddInt64(&s.progress[id], 1)
	}
}

func hasKey(m verVec, k txfile.PageID) bool { _, ok := m[k]; return ok }

// setup creates the file with an initial state (seq 1).
func (s *stress) setup(r *core.Rand) bool {
	s.disk = simdisk.New("simdisk", s.cfg.DiskCap)
	s.disk.SetRecording(false)
	opts := s.cfg.Options()
	opts.Observer = &statsObserver{}
	f, err := txfile.VerifOpenWith(s.disk, opts, s.hook)
	if err != nil {
		s.violate("open-failed", "open-failed", "open failed: %v", err)
		return false
	}
	s.f = f
	tx, err := f.Begin()
	if err != nil {
		s.violate("begin-failed", "begin-failed", "Begin failed: %v", err)
		return false
	}
	n := 4 + r.Intn(20)
	pgs, err := tx.AllocN(n)
	if err != nil {
		s.violate("alloc-error", "alloc-error", "setup alloc failed: %v", err)
		return false
	}
	s.seq = 1
	st := verVec{}
	for _, pg := range pgs {
		pg.SetBytes(s.expected(pg.ID(), 1))
		st[pg.ID()] = 1
	}
	s.root = pgs[0].ID()
	tx.SetRoot(s.root)
	s.states[1] = st
	if err := tx.Commit(); err != nil {
		s.violate("commit-error", "commit-error", "setup commit failed: %v", err)
		return false
	}
	if s.sc.Resize && s.cfg.MaxPages > 0 {
		// reopen with a changed max size: runs open-time maintenance transactions
		if err := f.Close(); err != nil {
			s.violate("fclose-error", "fclose-error", "close failed: %v", err)
			return false
		}
		s.disk.Reopenable()
		opts.Flags |= txfile.FlagUpdMaxSize
		opts.MaxSize = uint64(s.cfg.MaxPages+64) * uint64(s.cfg.PageSize)
		s.cfg.MaxPages += 64
		f, err = txfile.VerifOpenWith(s.disk, opts, s.hook)
		if err != nil {
			s.violate("open-failed", "open-failed", "reopen with new max size failed: %v", err)
			return false
		}
		s.f = f
	}
	return true
}

// lockIdle verifies the lock state at a point where no transaction is open.
func (s *stress) lockIdle(when string) bool {
	shared, pending, resFree := s.f.VerifLockState()
	if shared != 0 || pending || !resFree {
		s.violate("lock-leak", fmt.Sprintf("lock-leak:%s:shared=%d,pending=%v,reservedFree=%v", when, shared, pending, resFree),
			"no transaction open (%s) but lock state is shared=%d pending=%v reservedFree=%v", when, shared, pending, resFree)
		return false
	}
	return true
}

// watch is the deadlock detector. It declares a deadlock only from state
// facts: no worker made progress over many samples, every live worker is
// inside a txfile call, no disk I/O in flight, and every worker go-routine is
// parked on a lock/condition inside go-txfile. Anything else that does not
// finish is left to the watchdog (inconclusive).
func (s *stress) watch(done chan struct{}, nWorkers int) {
	last := make([]int64, nWorkers)
	still := 0
	t := time.NewTicker(20 * time.Millisecond)
	defer t.Stop()
	for {
		select {
		case <-done:
			return
		case <-t.C:
		}
		moved := false
		for i := 0; i < nWorkers; i++ {
			if v := atomic.LoadInt64(&s.progress[i]); v != last[i] {
				last[i], moved = v, true
			}
		}
		if moved || s.disk.InFlight() {
			still = 0
			continue
		}
		still++
		if still < 150 {
			continue
		}
		still = 0
		allIn := true
		anyIn := false
		for i := 0; i < nWorkers; i++ {
			if atomic.LoadInt32(&s.inCall[i]) == 1 {
				anyIn = true
			}
		}
		if !anyIn {
			continue
		}
		buf := make([]byte, 1<<20)
		buf = buf[:runtime.Stack(buf, true)]
		dump := string(buf)
		blocked := 0
		for _, g := range strings.Split(dump, "\n\n") {
			if !strings.Contains(g, "verif/filecheck.(*stress).") {
				continue
			}
			if !(strings.Contains(g, "filecheck.(*stress).reader") || strings.Contains(g, "filecheck.(*stress).writer") || strings.Contains(g, "filecheck.(*stress).closer")) {
				continue
			}
			head := g
			if i := strings.IndexByte(g, '\n'); i > 0 {
				head = g[:i]
			}
			parked := strings.Contains(head, "sync.Cond.Wait") || strings.Contains(head, "sync.Mutex.Lock") || strings.Contains(head, "semacquire") || strings.Contains(head, "sync.RWMutex")
			if parked && strings.Contains(g, "github.com/elastic/go-txfile.") {
				blocked++
			} else {
				allIn = false
			}
		}
		if allIn && blocked > 0 {
			shared, pending, resFree := s.f.VerifLockState()
			close(s.deadlocked)
			s.violate("deadlock", "deadlock", "no worker makes progress; %d worker go-routines are parked on locks inside go-txfile; lock state shared=%d pending=%v reservedFree=%v\n%s", blocked, shared, pending, resFree, core.TrimStack(dump))
			// release the case: nothing more can be learned
			return
		}
	}
}

func (s *stress) closer(id int, r *core.Rand, wg *sync.WaitGroup, closed *int32) {
	defer wg.Done()
	defer s.guard("closer")
	// let the others work for a while
	for i := 0; i < 50+r.Intn(400); i++ {
		runtime.Gosched()
	}
	s.gate.Lock()
	s.closing = true
	s.gate.Unlock()
	atomic.StoreInt32(&s.inCall[id], 1)
	err := s.f.Close()
	atomic.StoreInt32(&s.inCall[id], 0)
	atomic.StoreInt32(closed, 1)
	if err != nil {
		s.violate("fclose-error", "fclose-error", "File.Close failed: %v", err)
	}
	atomic.AddInt64(&s.progress[id], 1)
}

// checkLinearizable feeds the begin/commit history to porcupine.
func (s *stress) checkLinearizable() {
	type in struct {
		commit bool
		seq    uint64
		ok     bool
	}
	model := porcupine.Model{
		Init: func() interface{} { return uint64(1) },
		Step: func(state, input, output interface{}) (bool, interface{}) {
			i := input.(in)
			if i.commit {
				if i.ok {
					return true, i.seq
				}
				return true, state
			}
			return output.(uint64) == state.(uint64), state
		},
		DescribeOperation: func(input, output interface{}) string {
			i := input.(in)
			if i.commit {
				return fmt.Sprintf("commit(%d) ok=%v", i.seq, i.ok)
			}
			return fmt.Sprintf("begin-readonly -> sees %d", output.(uint64))
		},
	}
	var ops []porcupine.Operation
	for _, h := range s.hist {
		ops = append(ops, porcupine.Operation{ClientId: h.client, Input: in{h.isCommit, h.seq, h.ok}, Output: h.seq, Call: h.call, Return: h.ret})
	}
	r, info := porcupine.CheckOperationsVerbose(model, ops, 60*time.Second)
	_ = info
	switch r {
	case porcupine.Ok:
		s.res.Add("linearizable_histories", 1)
	case porcupine.Unknown:
		s.res.Add("porcupine_timeouts", 1)
	case porcupine.Illegal:
		// describe the first read that has no legal linearization point: report the whole (short) history
		sort.Slice(s.hist, func(i, j int) bool { return s.hist[i].call < s.hist[j].call })
		var lines []string
		for _, h := range s.hist {
			if h.isCommit {
				lines = append(lines, fmt.Sprintf("[%d,%d] commit(%d) ok=%v", h.call, h.ret, h.seq, h.ok))
			} else {
				lines = append(lines, fmt.Sprintf("[%d,%d] reader %d begins -> sees %d", h.call, h.ret, h.client, h.seq))
			}
		}
		if len(lines) > 80 {
			lines = lines[len(lines)-80:]
		}
		s.violate("not-linearizable", "not-linearizable", "begin/commit history is not linearizable: a reader saw a state that is not the last commit completed before it began\n%s", strings.Join(lines, "\n"))
	}
	s.res.Add("history_ops", int64(len(ops)))
}

func runStress(c *core.Case, prop string, sc stressCfg) *core.Result {
	res := &core.Result{}
	r := c.R
	cfg := Config{PageSize: 1024, DiskCap: 4 << 20, SyncMode: r.Intn(3)}
	if r.Chance(1, 3) {
		cfg.MaxPages = 96 + r.Intn(400)
		cfg.DiskCap = 2 << 20
	}
	cfg.InitMetaArea = []uint32{0, 0, 4, 16}[r.Intn(4)]
	s := &stress{c: c, cfg: cfg, sc: sc, res: res, prop: prop, ps: int(cfg.PageSize),
		states: map[uint64]verVec{}, invalid: map[uint64]string{}, events: map[string]int64{}, deadlocked: make(chan struct{})}
	n := sc.Readers + sc.Writers + 1
	s.progress = make([]int64, n)
	s.inCall = make([]int32, n)
	s.writerPoint.Store("idle")

	finish := func() *core.Result {
		s.mu.Lock()
		for _, v := range s.viol {
			res.Violations = append(res.Violations, v)
			res.Status = core.Violated
		}
		for k, v := range s.events {
			res.Add("ev:"+k, v)
			res.SetAdd("interleaving_points", k)
		}
		s.mu.Unlock()
		res.Add("commits_ok", s.commitsOK)
		res.Add("commits_failed", s.commitsFailed)
		res.Add("rollbacks", s.rollbacks)
		res.Add("reader_transactions", s.readerTx)
		res.Add("scans", s.scans)
		res.Add("remaps", s.remaps)
		res.Max("concurrent_writers_seen", int64(atomic.LoadInt32(&s.maxRW)))
		res.Key = fmt.Sprintf("%d-%d-%d-%d-%x", sc.Readers, sc.Writers, s.commitsOK, s.readerTx, len(s.events))
		res.Nontrivial = s.commitsOK >= 3 && s.readerTx >= 3
		if c.Idx%17 == 0 {
			res.Sample = map[string]interface{}{"case": c.Idx, "config": cfg, "stress": sc, "commits": s.commitsOK, "reader_tx": s.readerTx, "interleaving_points_seen": len(s.events)}
		}
		return res
	}

	if !s.setup(r) {
		return finish()
	}
	if !s.lockIdle("after-open") {
		s.f.Close()
		return finish()
	}
	if sc.Faults {
		// a burst of failing syncs somewhere in the run
		s.disk.SetFaults([]simdisk.Fault{{Kind: simdisk.KSync, Index: 4 + r.Intn(30), Burst: 1 + r.Intn(4)}})
	}

	var wg sync.WaitGroup
	var closed int32
	done := make(chan struct{})
	go s.watch(done, n)
	for i := 0; i < sc.Readers; i++ {
		wg.Add(1)
		go s.reader(i, r.Sub("reader", i), &wg)
	}
	var wwg sync.WaitGroup
	for i := 0; i < sc.Writers; i++ {
		wg.Add(1)
		wwg.Add(1)
		id := sc.Readers + i
		wr := r.Sub("writer", id)
		go func() {
			defer wwg.Done()
			s.writer(id, wr, &wg)
		}()
	}
	if sc.Closer {
		wg.Add(1)
		go s.closer(n-1, r.Sub("closer", 0), &wg, &closed)
	}
	// readers run until the writers are done
	go func() {
		wwg.Wait()
		atomic.StoreInt32(&s.stop, 1)
	}()
	finished := make(chan struct{})
	go func() { wg.Wait(); close(finished) }()
	select {
	case <-finished:
	case <-s.deadlocked:
		// workers parked forever inside go-txfile are abandoned
	}
	close(done)

	s.mu.Lock()
	nv := len(s.viol)
	s.mu.Unlock()
	if nv == 0 {
		if atomic.LoadInt32(&closed) == 0 {
			if s.lockIdle("after-run") {
				// final state must be the last successful commit
				if err := s.f.Close(); err != nil {
					s.violate("fclose-error", "fclose-error", "File.Close failed: %v", err)
				}
			}
		}
		if s.disk.Locked() || !s.disk.Closed() {
			s.violate("fclose-lock", "fclose-lock", "after File.Close: path lock held=%v closed=%v", s.disk.Locked(), s.disk.Closed())
		}
		s.checkLinearizable()
	} else if atomic.LoadInt32(&closed) == 0 {
		// do not call Close: it may hang after a violation (leaked locks)
	}
	return finish()
}

func init() {
	core.Register(&core.Check{
		ID:          "C02",
		Level:       "exploration",
		Rule:        "case = one free-running run (race detector build) of 1 writer (transactions with overwrites, allocs incl. growth past the mapped size, frees, Flush, CheckpointWAL, rollbacks, close-without-commit, injected failing commits) against 1-4 readers with PRNG hold times and PRNG yields injected at the commit hook points; every page carries stamp(page, commit seq), the root page the commit seq; oracle = each reader scans root+all pages of the state the root names twice (after Begin, before Close): the version vector must equal the published state both times, never a state of a rolled-back/failed transaction, never poisoned (unmapped) memory; the begin/commit history (logical clock) is checked for linearizability with porcupine (register model); the simulated mmap turns reader/writer overlap on page bytes into race reports; distinct = (reader event x writer commit point) sets; non-trivial = >=3 commits and >=3 reader transactions",
		Assumptions: append([]string{"interleavings are sampled by the Go scheduler plus injected yields, not enumerated; evidence lists the (reader event @ writer commit point) pairs actually observed"}, simdiskAssumptions...),
		NumCases:    func(t string) int { return tierN(t, 96, 1600) },
		Race:        func(t string, i int) bool { return true },
		CaseTimeout: func(t string) time.Duration {
			if t == "thorough" {
				return 10 * time.Minute
			}
			return 6 * time.Minute
		},
		Run: func(c *core.Case) *core.Result {
			sc := stressCfg{COW: c.R.Chance(1, 2), Readers: 1 + c.R.Intn(4), Writers: 1, TxPerWriter: 20 + c.R.Intn(25), Perturb: true, HoldMax: []int{0, 5, 50, 400}[c.R.Intn(4)], Faults: c.R.Chance(1, 3)}
			return runStress(c, "C02", sc)
		},
		Finalize: func(a *core.Aggregate) error {
			need := []string{"begin-call@pending-set", "rescan@before-exclusive", "begin-return@idle", "rescan@flushed"}
			for _, k := range need {
				if a.Stats["ev:"+k] == 0 {
					return fmt.Errorf("interleaving %q never observed", k)
				}
			}
			if a.Stats["remaps"] == 0 {
				return fmt.Errorf("no commit remapped the file while readers were running")
			}
			if a.Stats["linearizable_histories"] == 0 {
				return fmt.Errorf("no history checked by porcupine")
			}
			return nil
		},
	})

	core.Register(&core.Check{
		ID:          "C09",
		Level:       "exploration",
		Rule:        "case = one free-running run (race detector build, thread-safe Observer installed) of N in 1..6 readers x M in 1..3 writers (commit / rollback / close / injected failing commits) and, in half of the cases, a closer calling File.Close while transactions are open; a third of the cases start with an Open that updates the max size (open-time maintenance transactions); monitors = exact writer count from begin/unlock hook events (<=1), lock state idle after open and after the run (hook), state-based deadlock detector (no progress + all workers parked on go-txfile locks, goroutine dump as witness), race detector reports (process-fatal, deduplicated by top frames), reader content oracle as in C02; every 4th case instead runs the cooperative scheduler: actor sets {1-2 readers, 1-2 writers (commit/rollback), closer} stepped one at a time at API boundaries and lock-adjacent hook points, would-block predicates evaluated on the hooked lock state, all schedules with <=2 (quick) / <=3 (thorough) preemptions enumerated depth-first up to a budget, deadlock = no enabled actor (state fact), lock leak at the end, reader view vs completed commits; distinct = (N,M,commits,reader tx,interleaving points); non-trivial = >=3 commits and >=3 reader transactions",
		Assumptions: append([]string{"a Begin is never started after File.Close was called (documented precondition); transactions open at that time overlap with Close", "a run that does not finish without the deadlock detector's state facts is reported as inconclusive (watchdog), never as violation"}, simdiskAssumptions...),
		NumCases:    func(t string) int { return tierN(t, 96, 1600) },
		Race:        func(t string, i int) bool { return i%4 != 3 }, // scheduler cases are deterministic: plain build
		CaseTimeout: func(t string) time.Duration {
			if t == "thorough" {
				return 10 * time.Minute
			}
			return 6 * time.Minute
		},
		Run: func(c *core.Case) *core.Result {
			if c.Idx%4 == 3 {
				// cooperative scheduler: enumerated schedules of small actor sets
				return runSchedCase(c)
			}
			sc := stressCfg{COW: c.R.Chance(1, 3), Readers: 1 + c.R.Intn(6), Writers: 1 + c.R.Intn(3), TxPerWriter: 10 + c.R.Intn(20), Perturb: c.R.Chance(1, 2),
				HoldMax: []int{0, 5, 50, 200}[c.R.Intn(4)], Faults: c.R.Chance(1, 3), Closer: c.R.Chance(1, 2), Resize: c.R.Chance(1, 3)}
			return runStress(c, "C09", sc)
		},
		Finalize: func(a *core.Aggregate) error {
			if a.Stats["commits_ok"] == 0 || a.Stats["rollbacks"] == 0 || a.Stats["commits_failed"] == 0 {
				return fmt.Errorf("commit/rollback/failing commit not all observed")
			}
			if a.Stats["distinct_schedules"] == 0 {
				return fmt.Errorf("cooperative scheduler executed no schedule")
			}
			if a.Maxes["concurrent_writers_seen"] != 1 {
				return fmt.Errorf("writer count monitor saw max %d", a.Maxes["concurrent_writers_seen"])
			}
			return nil
		},
	})
}
