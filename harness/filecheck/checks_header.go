package filecheck

import (
	"bytes"
	"encoding/binary"
	"fmt"
	"time"

	txfile "github.com/elastic/go-txfile"

	"verif/core"
	"verif/simdisk"
)

// C16: a damaged header never wins.

type hdrVariant struct {
	name   string
	mutate func(img []byte) // damages a copy of the image
}

func setHeaderTxid(img []byte, off int, txid uint64) {
	binary.LittleEndian.PutUint64(img[off+offTxid:], txid)
	binary.LittleEndian.PutUint32(img[off+offChecksum:], HeaderChecksum(img[off:off+HdrSize]))
}

// openDamaged opens a damaged image and verifies the outcome against the
// harness' own judgement of the two header slots.
func openDamaged(c *core.Case, cfg Config, states map[uint64]*State, img []byte, res *core.Result, what string, stateOf func(h Header) *State) bool {
	ps := int(cfg.PageSize)
	h0, h1 := ParseHeader(img, 0), ParseHeader(img, ps)
	var expect *Header
	switch {
	case h0.Valid && h1.Valid:
		if h0.Txid == h1.Txid {
			expect = &h0 // identical transaction id: either slot describes the state
		} else if int64(h0.Txid-h1.Txid) > 0 {
			expect = &h0
		} else {
			expect = &h1
		}
	case h0.Valid:
		expect = &h0
	case h1.Valid:
		expect = &h1
	}
	fail := func(rule, format string, args ...interface{}) bool {
		res.Violate("C16", rule, rule, what+": "+fmt.Sprintf(format, args...), map[string]interface{}{"config": cfg, "slot0": h0, "slot1": h1})
		return false
	}

	sub := &core.Result{}
	w := NewWorld(cfg, Monitors{Property: "C16", Content: true, LockIdle: true}, c.R, sub)
	w.Disk = simdisk.FromImage("damaged-image", img, cfg.DiskCap)
	w.Disk.SetRecording(false)
	opts := cfg.Options()
	var f *txfile.File
	var err error
	if w.guard("Open(damaged header)", func() { f, err = txfile.VerifOpenWith(w.Disk, opts, nil) }) {
		for _, v := range sub.Violations {
			v.Message = what + ": " + v.Message
			v.Signature = "open-panic:" + v.Signature
			res.Violations = append(res.Violations, v)
		}
		res.Status = core.Violated
		return false
	}
	if expect == nil {
		if err == nil {
			f.Close()
			return fail("both-damaged-opened", "both headers are damaged but Open succeeded")
		}
		if w.Disk.Locked() || !w.Disk.Closed() {
			return fail("open-fail-lock", "failed Open left the path locked=%v closed=%v", w.Disk.Locked(), w.Disk.Closed())
		}
		res.Add("both_damaged_rejected", 1)
		return true
	}
	if err != nil {
		return fail("intact-header-rejected", "an intact header (txid %d) exists but Open failed: %v", expect.Txid, err)
	}
	w.F = f
	snap := f.VerifSnapshot()
	got := snap.Headers[snap.MetaActive]
	if got.Txid != expect.Txid || uint64(got.Root) != expect.Root || uint64(got.Freelist) != expect.Freelist || uint64(got.WAL) != expect.WAL {
		w.CloseFile()
		return fail("wrong-header-chosen", "Open uses header txid=%d root=%d, expected the intact/newer header txid=%d root=%d", got.Txid, got.Root, expect.Txid, expect.Root)
	}
	st := stateOf(*expect)
	if st == nil {
		w.CloseFile()
		return fail("harness-no-state", "no recorded state for header txid %d", expect.Txid)
	}
	w.Committed = st.clone()
	w.LastTxid = got.Txid
	if !w.checkQuiescent("open of damaged image") {
		for _, v := range sub.Violations {
			v.Message = what + ": " + v.Message
			res.Violations = append(res.Violations, v)
		}
		res.Status = core.Violated
		w.CloseFile()
		return false
	}
	res.Add("fallback_opens_verified", 1)
	if res.Stats["fallback_opens_verified"]%25 == 7 {
		// the next commit must write the other slot: the header this state was
		// recovered from has to survive until that commit is complete, or a torn
		// header write would leave no valid header at all
		slot := 1
		if expect == &h0 {
			slot = 0
		}
		before := append([]byte(nil), img[slot*ps:slot*ps+HdrSize]...)
		commits := w.Commits
		ok := w.Begin(txfile.TxOptions{}) && w.Alloc(1, 1) && w.End(OCommit)
		if !ok {
			for _, v := range sub.Violations {
				v.Message = what + ", commit after the recovery: " + v.Message
				res.Violations = append(res.Violations, v)
			}
			res.Status = core.Violated
			w.CloseFile()
			return false
		}
		if w.Commits > commits {
			now := w.Disk.Snapshot()
			if !bytes.Equal(now[slot*ps:slot*ps+HdrSize], before) {
				w.CloseFile()
				return fail("commit-overwrote-active-header", "the first commit after the recovery wrote its header into slot %d, the slot of the header (txid %d) the state was recovered from; a torn write of it would have left no valid header", slot, expect.Txid)
			}
			res.Add("commits_after_recovery_checked", 1)
		}
	}
	w.CloseFile()
	return true
}

func runHeaderCase(c *core.Case) *core.Result {
	res := &core.Result{}
	r := c.R
	cfg := GenConfig(r, 2)
	cfg.DiskCap = 1 << 20
	if cfg.MaxPages > 0 {
		if need := (cfg.MaxPages + 32) * int(cfg.PageSize); need > cfg.DiskCap {
			cfg.DiskCap = need
		}
	}
	p := DefaultGen()
	p.Txs = 3 + r.Intn(8)
	p.PReopen = 5
	p.PCommit = 85
	prog := GenProgram(r, p)
	w := recordHistory(c, cfg, prog, res, "C16")
	if w.failed {
		return res
	}
	ops := w.Disk.Log()
	ps := int(cfg.PageSize)

	// collect images at commit-ok boundaries
	type base struct {
		img  []byte
		txid uint64
	}
	var bases []base
	var created *base
	walker := simdisk.NewWalker(ops, ps, nil)
	for !walker.Done() {
		op := walker.Step()
		if op.Kind == simdisk.OpMarker && op.Marker == "created" && created == nil {
			// the file as Open created it: two headers of the same (empty) state
			img := walker.Image(func(i int) (bool, int) { return true, -1 })
			created = &base{img, uint64(op.Arg)}
			if st := w.States[created.txid]; st != nil && created.txid > 0 && w.States[created.txid-1] == nil {
				prev := st.clone()
				prev.Txid = created.txid - 1
				w.States[prev.Txid] = prev
			}
		}
		if op.Kind == simdisk.OpMarker && op.Marker == "commit-ok" {
			img := walker.Image(func(i int) (bool, int) { return true, -1 })
			bases = append(bases, base{img, uint64(op.Arg)})
		}
	}
	if len(bases) == 0 {
		res.Status, res.Note = core.Inconclusive, "no-commit"
		return res
	}
	// one image per case (PRNG chosen), swept completely
	b := bases[r.Intn(len(bases))]
	if c.Idx%6 == 5 && created != nil {
		// a file that never saw a commit
		b = *created
		res.Add("base_images_of_never_committed_files", 1)
	}
	stateOf := func(h Header) *State { return w.States[h.Txid] }
	hNew, slotNew := NewestHeader(b.img, ps)
	if !hNew.Valid || hNew.Txid != b.txid {
		res.Violate("C16", "header-format", "header-format", fmt.Sprintf("the header written by commit txid=%d is not valid according to the documented format (magic, version, FNV-32a checksum over the first 80 bytes): harness decoder sees valid=%v txid=%d", b.txid, hNew.Valid, hNew.Txid), map[string]interface{}{"config": cfg})
		return res
	}
	// the other slot holds the previous header; nobody damaged it, so it has to
	// be valid as well (it is what recovery falls back to)
	if hOld := ParseHeader(b.img, (1-slotNew)*ps); !hOld.Valid || hOld.Txid != b.txid-1 {
		res.Violate("C16", "header-format", "header-format:older-slot", fmt.Sprintf("undamaged image after txid=%d: the older header slot %d is not a valid header of txid %d according to the documented format (harness decoder: valid=%v txid=%d); a damaged newest header could not be survived", b.txid, 1-slotNew, b.txid-1, hOld.Valid, hOld.Txid), map[string]interface{}{"config": cfg})
		return res
	}
	if w.States[b.txid-1] == nil {
		res.Status, res.Note = core.Inconclusive, "no-previous-state"
		return res
	}
	variants := 0
	run := func(name string, mutate func(img []byte)) bool {
		img := append([]byte(nil), b.img...)
		mutate(img)
		variants++
		return openDamaged(c, cfg, w.States, img, res, fmt.Sprintf("image after commit txid=%d, %s", b.txid, name), stateOf)
	}
	done := func() *core.Result {
		res.Key = fmt.Sprintf("%s/%d", w.Key(), b.txid)
		res.Nontrivial = variants > 100
		res.Add("variants", int64(variants))
		res.Add("base_images", 1)
		if c.Idx%7 == 0 || c.Verbose {
			res.Sample = map[string]interface{}{"case": c.Idx, "config": cfg, "base_txid": b.txid, "newest_slot": slotNew, "variants": variants}
		}
		return res
	}

	for slot := 0; slot < 2; slot++ {
		off := slot * ps
		// all single-bit flips of the 84 header bytes
		for bit := 0; bit < HdrSize*8; bit++ {
			bit := bit
			if !run(fmt.Sprintf("slot %d bit flip %d", slot, bit), func(img []byte) { img[off+bit/8] ^= 1 << uint(bit%8) }) {
				return done()
			}
		}
		res.Add("bit_flips", int64(HdrSize*8))
		// every prefix tear: the first c bytes come from the header the next
		// commit would write into this slot (other header, txid+1)
		other := (1 - slot) * ps
		next := append([]byte(nil), b.img[other:other+HdrSize]...)
		binary.LittleEndian.PutUint64(next[offTxid:], hNew.Txid+1)
		binary.LittleEndian.PutUint64(next[offRoot:], hNew.Root+1)
		binary.LittleEndian.PutUint32(next[offChecksum:], HeaderChecksum(next))
		for cut := 1; cut < HdrSize; cut++ {
			cut := cut
			if bytes.Equal(b.img[off+cut:off+HdrSize], next[cut:]) {
				// the bytes behind the cut are the same in the old and in the new
				// header (e.g. the last checksum byte): this "tear" is the complete
				// header of a commit whose pages are not in the image, not a damage
				res.Add("tears_identical_to_complete_write", 1)
				continue
			}
			if !run(fmt.Sprintf("slot %d torn at byte %d", slot, cut), func(img []byte) { copy(img[off:], next[:cut]) }) {
				return done()
			}
		}
		res.Add("tears", int64(HdrSize-1))
		// zeroes, garbage, random multi byte damage, damage outside the header bytes
		if !run(fmt.Sprintf("slot %d zeroed page", slot), func(img []byte) {
			for i := 0; i < ps; i++ {
				img[off+i] = 0
			}
		}) {
			return done()
		}
		if !run(fmt.Sprintf("slot %d zeroed header", slot), func(img []byte) {
			for i := 0; i < HdrSize; i++ {
				img[off+i] = 0
			}
		}) {
			return done()
		}
		for k := 0; k < 24; k++ {
			seed := r.Int63()
			if !run(fmt.Sprintf("slot %d random damage #%d", slot, k), func(img []byte) {
				rr := core.NewRand(seed, "dmg", k)
				switch k % 3 {
				case 0: // garbage page
					for i := 0; i < ps; i++ {
						img[off+i] = byte(rr.Intn(256))
					}
				case 1: // a few random bytes
					for j := 0; j < 1+rr.Intn(6); j++ {
						img[off+rr.Intn(HdrSize)] = byte(rr.Intn(256))
					}
				case 2: // a damaged run
					st := rr.Intn(HdrSize)
					for i := st; i < HdrSize && i < st+1+rr.Intn(16); i++ {
						img[off+i] ^= byte(1 + rr.Intn(255))
					}
				}
			}) {
				return done()
			}
		}
		if !run(fmt.Sprintf("slot %d damage outside the header bytes", slot), func(img []byte) {
			for i := HdrSize; i < ps; i++ {
				img[off+i] = byte(i * 7)
			}
		}) {
			return done()
		}
		// slot replaced by a copy of the other
		if !run(fmt.Sprintf("slot %d replaced by a copy of slot %d", slot, 1-slot), func(img []byte) {
			copy(img[off:off+ps], b.img[other:other+ps])
		}) {
			return done()
		}
	}
	// both slots damaged
	for k := 0; k < 8; k++ {
		k := k
		if !run(fmt.Sprintf("both slots damaged #%d", k), func(img []byte) {
			img[(k*5)%HdrSize] ^= 0x10
			img[ps+(k*11)%HdrSize] ^= 0x01
		}) {
			return done()
		}
	}
	// valid header pairs around the txid wrap-around: the newer commit must win
	// by signed difference.
	oldSlot := 1 - slotNew
	for _, pair := range [][2]uint64{
		{^uint64(0), 0}, {^uint64(0) - 1, ^uint64(0)}, {^uint64(0), 5}, {1<<63 - 1, 1 << 63}, {1 << 63, 1<<63 + 1}, {7, 7 + (1<<63 - 1)},
	} {
		pair := pair
		older, newer := pair[0], pair[1]
		wrapState := func(h Header) *State {
			if h.Txid == newer {
				return w.States[b.txid]
			}
			return w.States[b.txid-1]
		}
		img := append([]byte(nil), b.img...)
		setHeaderTxid(img, oldSlot*ps, older)
		setHeaderTxid(img, slotNew*ps, newer)
		variants++
		if !openDamaged(c, cfg, w.States, img, res, fmt.Sprintf("txid wrap-around pair older=%d newer=%d", older, newer), wrapState) {
			return done()
		}
		res.Add("wraparound_pairs", 1)
		// and with the newer one damaged: fall back to the older
		img2 := append([]byte(nil), img...)
		img2[slotNew*ps+offRoot] ^= 0x40
		variants++
		if !openDamaged(c, cfg, w.States, img2, res, fmt.Sprintf("txid wrap-around pair older=%d newer=%d, newer damaged", older, newer), wrapState) {
			return done()
		}
	}
	return done()
}

func init() {
	core.Register(&core.Check{
		ID:          "C16",
		Level:       "fault_enumeration",
		Rule:        "case = one disk image taken at a commit-ok boundary of a PRNG history (both headers valid, previous state intact); for BOTH slots the complete sweeps are executed on the real open path: all 672 single-bit flips of the 84 header bytes, all 83 byte-prefix tears against the next commit's header, zeroed page/header, 24 random multi-byte damages, damage outside the header bytes, slot replaced by a copy of the other; plus both slots damaged and valid header pairs around the txid wrap-around (MaxUint64->0, 2^63 neighbourhood), checksums recomputed by the harness; oracle = harness' own header validation decides which slot must win: Open never panics, chooses that header, contents/root == recorded state of that txid, both damaged => error with the path lock released; distinct = history hash x base txid; non-trivial = > 100 variants",
		Assumptions: append([]string{"damage that keeps the 32-bit checksum valid is judged by the harness' own validation (then the damaged header legitimately counts as intact)"}, simdiskAssumptions...),
		NumCases:    func(t string) int { return tierN(t, 32, 1200) },
		CaseTimeout: func(t string) time.Duration { return 10 * time.Minute },
		Run:         runHeaderCase,
		Finalize: func(a *core.Aggregate) error {
			if a.Stats["fallback_opens_verified"] == 0 || a.Stats["both_damaged_rejected"] == 0 || a.Stats["wraparound_pairs"] == 0 {
				return fmt.Errorf("fallback/both-damaged/wrap-around outcomes not all observed")
			}
			return nil
		},
	})
}
