package filecheck

import (
	"bytes"
	"fmt"
	"math"
	"runtime/debug"
	"strings"

	txfile "github.com/elastic/go-txfile"
	"github.com/elastic/go-txfile/txerr"

	"verif/core"
)

// C15 (file layer): method x receiver-state matrix of invalid operations.

// MisuseCell is one cell of the matrix.
type MisuseCell struct {
	Recv   string // tx | page
	State  string
	Method string
	// Expect lists accepted error kinds; "nil" accepts no error; "np" = method
	// has no error result, it just must not panic.
	Expect []string
}

func (m MisuseCell) Name() string { return m.Recv + ":" + m.State + ":" + m.Method }

var kindNames = map[string]error{
	"TxFinished":    txfile.TxFinished,
	"TxReadOnly":    txfile.TxReadOnly,
	"InvalidPageID": txfile.InvalidPageID,
	"InvalidOp":     txfile.InvalidOp,
	"InvalidParam":  txfile.InvalidParam,
	"OutOfMemory":   txfile.OutOfMemory,
}

var txFinishedStates = []string{"rw-committed", "rw-rolledback", "rw-closed", "ro-closed", "ro-committed", "ro-rolledback"}

// "new-freed-refetched": allocated and freed again in the running transaction,
// handle obtained by another tx.Page(id) call afterwards
var pageStates = []string{"clean", "loaded", "dirty", "new-empty", "new-dirty", "flushed", "freed", "new-freed-refetched"}

// MisuseCells enumerates the finite matrix.
func MisuseCells() []MisuseCell {
	var cells []MisuseCell
	add := func(recv, state, method string, expect ...string) {
		cells = append(cells, MisuseCell{recv, state, method, expect})
	}
	invalidIDs := []string{"Page(0)", "Page(1)", "Page(end)", "Page(end+7)", "Page(2^40)", "Page(MaxUint64)"}

	for _, st := range txFinishedStates {
		ro := strings.HasPrefix(st, "ro-")
		w := []string{"TxFinished"}
		if ro {
			w = []string{"TxFinished", "TxReadOnly"}
		}
		for _, m := range []string{"Writable", "Readonly", "Active", "PageSize", "Root", "SetRoot"} {
			add("tx", st, m, "np")
		}
		add("tx", st, "RootPage", "TxFinished")
		add("tx", st, "Page(valid)", "TxFinished")
		for _, m := range invalidIDs {
			add("tx", st, m, "TxFinished", "InvalidPageID")
		}
		add("tx", st, "Alloc", w...)
		add("tx", st, "AllocN(3)", w...)
		add("tx", st, "AllocN(0)", append([]string{"nil"}, w...)...)
		add("tx", st, "AllocN(-1)", append([]string{"nil"}, w...)...)
		add("tx", st, "Flush", w...)
		add("tx", st, "CheckpointWAL", w...)
		add("tx", st, "Commit", "TxFinished")
		add("tx", st, "Rollback", "TxFinished")
		add("tx", st, "Close", "nil")
	}
	// read-only active
	for _, m := range []string{"Alloc", "AllocN(3)", "Flush", "CheckpointWAL"} {
		add("tx", "ro-active", m, "TxReadOnly")
	}
	add("tx", "ro-active", "AllocN(0)", "nil", "TxReadOnly")
	add("tx", "ro-active", "SetRoot", "np")
	for _, m := range invalidIDs {
		add("tx", "ro-active", m, "InvalidPageID")
	}
	// read-only active, begun while a write transaction that extended the file
	// (uncommitted) is open: the valid ids are those of the committed state
	for _, m := range invalidIDs {
		add("tx", "ro-active-beside-writer", m, "InvalidPageID")
	}
	add("tx", "ro-active-beside-writer", "Page(valid)", "nil")
	// writable active
	for _, m := range invalidIDs {
		add("tx", "rw-active", m, "InvalidPageID")
	}
	add("tx", "rw-active", "Page(freed)", "InvalidOp")
	add("tx", "rw-active", "AllocN(0)", "nil")
	add("tx", "rw-active", "AllocN(-1)", "nil")

	// pages in a writable active transaction
	for _, ps := range pageStates {
		for _, m := range []string{"ID", "Dirty", "Readonly", "Writable"} {
			add("page", ps, m, "np")
		}
		switch ps {
		case "new-empty":
			add("page", ps, "Bytes", "InvalidOp")
			add("page", ps, "SetBytes(oversize)", "InvalidParam")
		case "dirty", "new-dirty":
			add("page", ps, "Free", "InvalidOp")
			add("page", ps, "SetBytes(oversize)", "InvalidParam")
		case "clean", "loaded":
			add("page", ps, "SetBytes(oversize)", "InvalidParam")
		case "flushed", "freed", "new-freed-refetched":
			for _, m := range []string{"Load", "SetBytes(small)", "SetBytes(full)", "MarkDirty", "Free", "Flush"} {
				add("page", ps, m, "InvalidOp")
			}
			add("page", ps, "SetBytes(oversize)", "InvalidOp", "InvalidParam")
		}
	}
	// pages of finished transactions / read-only transactions
	for _, st := range txFinishedStates {
		ro := strings.HasPrefix(st, "ro-")
		w := []string{"TxFinished"}
		if ro {
			w = []string{"TxFinished", "TxReadOnly"}
		}
		for _, m := range []string{"ID", "Dirty", "Readonly", "Writable"} {
			add("page", "tx:"+st, m, "np")
		}
		add("page", "tx:"+st, "Bytes", "TxFinished")
		for _, m := range []string{"Load", "SetBytes(small)", "SetBytes(full)", "SetBytes(oversize)", "MarkDirty", "Free", "Flush"} {
			add("page", "tx:"+st, m, w...)
		}
	}
	for _, m := range []string{"Load", "SetBytes(small)", "SetBytes(full)", "SetBytes(oversize)", "MarkDirty", "Free", "Flush"} {
		add("page", "tx:ro-active", m, "TxReadOnly")
	}
	return cells
}

// callResult is what invoking a cell's method produced.
type callResult struct {
	err      error
	panicked bool
	panicVal interface{}
	stack    string
	pages    int
}

func invoke(fn func() (error, int)) (r callResult) {
	defer func() {
		if p := recover(); p != nil {
			r.panicked, r.panicVal, r.stack = true, p, string(debug.Stack())
		}
	}()
	r.err, r.pages = fn()
	return r
}

// RunMisuseCell executes one cell after a PRNG prefix history.
func RunMisuseCell(c *core.Case, cell MisuseCell, res *core.Result) {
	r := c.R
	cfg := GenConfig(r, 2)
	if cell.State == "ro-active-beside-writer" && cfg.MaxPages > 0 && r.Chance(3, 4) {
		// the writer has to extend the data area: mostly unbounded files
		cfg.MaxPages, cfg.MaxSizeOdd, cfg.Prealloc = 0, 0, false
	}
	mon := Monitors{Property: "C15", Content: true, LockIdle: true}
	w := NewWorld(cfg, mon, r, res)
	w.TraceOn = c.Verbose
	p := DefaultGen()
	p.Txs = 2 + r.Intn(6)
	p.PReopen = 0
	p.PCommit = 90
	prefix := GenProgram(r, p)
	defer func() {
		if w.F != nil && w.Tx == nil {
			f := w.F
			w.guard("File.Close(final)", func() { f.Close() })
		}
		res.Key = cell.Name() + "/" + w.Key()
		res.Nontrivial = true
	}()
	if !w.Open() || !w.Run(prefix) {
		return
	}
	// make sure at least 3 live, defined pages and a root exist
	if !w.Begin(txfile.TxOptions{}) {
		return
	}
	if !w.Alloc(3, 1) {
		return
	}
	ids := w.candRead()
	w.SetRoot(ids[0])
	if !w.End(OCommit) {
		return
	}
	if len(w.Committed.Pages) < 3 {
		// commit failed on a full bounded file: cell can not be set up
		res.Status = core.Inconclusive
		res.Note = "setup-impossible-file-full"
		return
	}

	fail := func(rule, format string, args ...interface{}) {
		w.violate(rule, rule+":"+cell.Name(), format, args...)
	}
	ps := int(cfg.PageSize)

	check := func(cr callResult) bool {
		if cr.panicked {
			w.failed = true
			res.Violate("C15", "misuse-panic", "misuse-panic:"+cell.Name()+":"+core.PanicSig(cr.panicVal, cr.stack),
				fmt.Sprintf("%s panicked: %v", cell.Name(), cr.panicVal), map[string]interface{}{"stack": core.TrimStack(cr.stack), "trace": w.tail(30), "config": cfg})
			return false
		}
		if len(cell.Expect) == 1 && cell.Expect[0] == "np" {
			return true
		}
		if cr.err == nil {
			for _, e := range cell.Expect {
				if e == "nil" {
					if cr.pages != 0 {
						fail("misuse-effect", "%s returned %d pages", cell.Name(), cr.pages)
						return false
					}
					return true
				}
			}
			fail("misuse-noerror", "%s returned no error, expected one of %v", cell.Name(), cell.Expect)
			return false
		}
		for _, e := range cell.Expect {
			if k, ok := kindNames[e]; ok && txerr.Is(k, cr.err) {
				return true
			}
		}
		fail("misuse-kind", "%s returned error kinds [%s] (%v), expected one of %v", cell.Name(), allKinds(cr.err), cr.err, cell.Expect)
		return false
	}

	sortedLive := func() []txfile.PageID { return w.Committed.sortedIDs() }

	txMethod := func(tx *txfile.Tx, method string, end txfile.PageID, freed txfile.PageID) callResult {
		return invoke(func() (error, int) {
			switch method {
			case "Writable":
				tx.Writable()
			case "Readonly":
				tx.Readonly()
			case "Active":
				if tx.Active() && cell.State != "rw-active" && cell.State != "ro-active" {
					return fmt.Errorf("Active() reports true on a finished transaction"), 0
				}
			case "PageSize":
				tx.PageSize()
			case "Root":
				tx.Root()
			case "SetRoot":
				tx.SetRoot(sortedLive()[1])
			case "RootPage":
				_, err := tx.RootPage()
				return err, 0
			case "Page(valid)":
				_, err := tx.Page(sortedLive()[0])
				return err, 0
			case "Page(0)":
				_, err := tx.Page(0)
				return err, 0
			case "Page(1)":
				_, err := tx.Page(1)
				return err, 0
			case "Page(end)":
				_, err := tx.Page(end)
				return err, 0
			case "Page(end+7)":
				_, err := tx.Page(end + 7)
				return err, 0
			case "Page(2^40)":
				_, err := tx.Page(1 << 40)
				return err, 0
			case "Page(MaxUint64)":
				_, err := tx.Page(math.MaxUint64)
				return err, 0
			case "Page(freed)":
				_, err := tx.Page(freed)
				return err, 0
			case "Alloc":
				pg, err := tx.Alloc()
				if pg != nil {
					return err, 1
				}
				return err, 0
			case "AllocN(3)":
				pgs, err := tx.AllocN(3)
				return err, len(pgs)
			case "AllocN(0)":
				pgs, err := tx.AllocN(0)
				return err, len(pgs)
			case "AllocN(-1)":
				pgs, err := tx.AllocN(-1)
				return err, len(pgs)
			case "Flush":
				return tx.Flush(), 0
			case "CheckpointWAL":
				return tx.CheckpointWAL(), 0
			case "Commit":
				return tx.Commit(), 0
			case "Rollback":
				return tx.Rollback(), 0
			case "Close":
				return tx.Close(), 0
			default:
				panic("harness: unknown tx method " + method)
			}
			return nil, 0
		})
	}

	pageMethod := func(pg *txfile.Page, method string) callResult {
		return invoke(func() (error, int) {
			switch method {
			case "ID":
				pg.ID()
			case "Dirty":
				pg.Dirty()
			case "Readonly":
				pg.Readonly()
			case "Writable":
				pg.Writable()
			case "Bytes":
				_, err := pg.Bytes()
				return err, 0
			case "Load":
				return pg.Load(), 0
			case "SetBytes(small)":
				return pg.SetBytes(make([]byte, 10)), 0
			case "SetBytes(full)":
				return pg.SetBytes(make([]byte, ps)), 0
			case "SetBytes(oversize)":
				return pg.SetBytes(make([]byte, ps+1)), 0
			case "MarkDirty":
				return pg.MarkDirty(), 0
			case "Free":
				return pg.Free(), 0
			case "Flush":
				return pg.Flush(), 0
			default:
				panic("harness: unknown page method " + method)
			}
			return nil, 0
		})
	}

	// finishTx ends a (harness-owned, not model tracked) transaction in the given way.
	finishTx := func(tx *txfile.Tx, how string) bool {
		var err error
		if w.guard("finish:"+how, func() {
			switch how {
			case "committed":
				err = tx.Commit()
			case "rolledback":
				err = tx.Rollback()
			default:
				err = tx.Close()
			}
		}) {
			return false
		}
		if err != nil {
			fail("misuse-setup", "finishing transaction (%s) failed: %v", how, err)
			return false
		}
		return true
	}

	end := w.F.VerifSnapshot().DataEnd

	switch {
	case cell.Recv == "tx" && (cell.State == "rw-active"):
		if !w.Begin(txfile.TxOptions{}) {
			return
		}
		var freed txfile.PageID
		if cell.Method == "Page(freed)" {
			cands := w.candFree()
			if len(cands) == 0 {
				res.Status, res.Note = core.Inconclusive, "no-free-candidate"
				w.End(OClose)
				return
			}
			freed = cands[0]
			if !w.Free(freed) {
				return
			}
		}
		// some regular work before and after the misuse
		if !w.Write(sortedLive()[len(sortedLive())-1], 0, 0) {
			return
		}
		end = w.F.VerifSnapshot().DataEnd
		if !check(txMethod(w.Tx, cell.Method, end, freed)) {
			return
		}
		if !w.Tx.Active() {
			fail("misuse-effect", "%s deactivated the running transaction", cell.Name())
			return
		}
		if !w.Write(sortedLive()[0], 1, 17) || !w.End(OCommit) {
			return
		}

	case cell.Recv == "tx" && cell.State == "ro-active-beside-writer":
		// the writer allocates past the committed end of the data area and stays open
		snap := w.F.VerifSnapshot()
		if !w.Begin(txfile.TxOptions{}) {
			return
		}
		var pages []*txfile.Page
		var err error
		n := int(snap.DataAvail)
		if snap.MaxPages == 0 {
			n = 0
			for _, reg := range snap.DataFree {
				n += int(reg.Count)
			}
			n += 12
		}
		wtx := w.Tx
		if n > 0 {
			if w.guard("AllocN(writer beside reader)", func() { pages, err = wtx.AllocN(n) }) {
				return
			}
		}
		grown := w.F.VerifSnapshot().DataEnd
		if err != nil || len(pages) != n || grown <= end {
			res.Status, res.Note = core.Inconclusive, "writer-could-not-extend-the-data-area"
			w.End(ORollback)
			return
		}
		res.Add("reader_beside_extending_writer", 1)
		var tx *txfile.Tx
		if w.guard("BeginReadonly", func() { tx, err = w.F.BeginReadonly() }) || err != nil {
			fail("misuse-setup", "BeginReadonly failed: %v", err)
			return
		}
		ok := check(txMethod(tx, cell.Method, end, 0))
		if ok && !tx.Active() {
			fail("misuse-effect", "%s deactivated the read transaction", cell.Name())
			ok = false
		}
		if ok && !w.verifyIn(tx, w.Committed, "misuse-ro-view") {
			ok = false
		}
		if !finishTx(tx, "closed") || !ok {
			return
		}
		if !w.End(ORollback) {
			return
		}

	case cell.Recv == "tx" && cell.State == "ro-active":
		var tx *txfile.Tx
		var err error
		if w.guard("BeginReadonly", func() { tx, err = w.F.BeginReadonly() }) || err != nil {
			fail("misuse-setup", "BeginReadonly failed: %v", err)
			return
		}
		ok := check(txMethod(tx, cell.Method, end, 0))
		if ok && !tx.Active() {
			fail("misuse-effect", "%s deactivated the read transaction", cell.Name())
			ok = false
		}
		if ok {
			// the view must be unchanged
			if cell.Method == "SetRoot" {
				// SetRoot only changes the transaction-local value
			} else if !w.verifyIn(tx, w.Committed, "misuse-ro-view") {
				ok = false
			}
		}
		if !finishTx(tx, "closed") || !ok {
			return
		}

	case cell.Recv == "tx": // finished states
		ro := strings.HasPrefix(cell.State, "ro-")
		how := cell.State[3:]
		var tx *txfile.Tx
		var err error
		if w.guard("Begin", func() {
			if ro {
				tx, err = w.F.BeginReadonly()
			} else {
				tx, err = w.F.Begin()
			}
		}) || err != nil {
			fail("misuse-setup", "Begin failed: %v", err)
			return
		}
		if !finishTx(tx, how) {
			return
		}
		if !ro && how == "committed" {
			// an empty commit still advances the header txid
			w.LastTxid++
		}
		if !check(txMethod(tx, cell.Method, end, 0)) {
			return
		}

	case cell.Recv == "page" && !strings.HasPrefix(cell.State, "tx:"):
		if !w.Begin(txfile.TxOptions{}) {
			return
		}
		var id txfile.PageID
		live := sortedLive()
		switch cell.State {
		case "clean":
			id = live[0]
			if w.getTxPage(id) == nil {
				return
			}
		case "loaded":
			id = live[0]
			if !w.Write(id, 3, 0) {
				return
			}
		case "dirty":
			id = live[0]
			if !w.Write(id, r.Intn(3), 33) {
				return
			}
		case "flushed":
			id = live[0]
			if !w.Write(id, 0, 0) || !w.FlushPage(id) {
				return
			}
			if !w.txPages[id].flushed {
				res.Status, res.Note = core.Inconclusive, "flush-not-possible-file-full"
				w.End(OClose)
				return
			}
		case "freed":
			cands := w.candFree()
			if len(cands) == 0 {
				res.Status, res.Note = core.Inconclusive, "no-free-candidate"
				w.End(OClose)
				return
			}
			id = cands[0]
			if w.getTxPage(id) == nil || !w.Free(id) {
				return
			}
		case "new-freed-refetched":
			before := len(w.txOrder)
			if !w.Alloc(3, 0) {
				return
			}
			if len(w.txOrder) < before+3 {
				res.Status, res.Note = core.Inconclusive, "alloc-not-possible-file-full"
				w.End(OClose)
				return
			}
			id = w.txOrder[before] // not the last page of the file
			if !w.Free(id) {
				return
			}
			var pg *txfile.Page
			var err error
			tx := w.Tx
			if w.guard("Tx.Page(new page freed in this transaction)", func() { pg, err = tx.Page(id) }) {
				return
			}
			if err != nil {
				// refusing access to the freed page is the documented outcome as well
				if !txerr.Is(txfile.InvalidOp, err) && !txerr.Is(txfile.InvalidPageID, err) {
					fail("misuse-kind", "Tx.Page of a page freed in this transaction failed with kinds [%s]", allKinds(err))
					return
				}
				res.Add("refetch_refused", 1)
				w.End(OCommit)
				return
			}
			if !check(pageMethod(pg, cell.Method)) {
				return
			}
			res.Add("refetched_freed_new_pages", 1)
			w.End(OCommit)
			return
		case "new-empty", "new-dirty":
			before := len(w.txOrder)
			fill := 0
			if cell.State == "new-dirty" {
				fill = 1
			}
			if !w.Alloc(1, fill) {
				return
			}
			if len(w.txOrder) == before {
				res.Status, res.Note = core.Inconclusive, "alloc-not-possible-file-full"
				w.End(OClose)
				return
			}
			id = w.txOrder[len(w.txOrder)-1]
		}
		tp := w.txPages[id]
		var beforeBytes []byte
		if tp.content != nil && tp.content.Defined {
			beforeBytes = append([]byte(nil), tp.content.Data...)
		}
		if !check(pageMethod(tp.page, cell.Method)) {
			return
		}
		// the view of the running transaction must be unchanged
		if beforeBytes != nil && !tp.freed {
			b, err := tp.page.Bytes()
			if err != nil {
				fail("misuse-effect", "after %s the page is not readable any more: %v", cell.Name(), err)
				return
			}
			if !bytes.Equal(b, beforeBytes) {
				fail("misuse-effect", "%s changed the contents of the page in the running transaction", cell.Name())
				return
			}
		}
		if tp.page.Dirty() != (tp.dirty) {
			fail("misuse-effect", "%s changed the dirty flag of the page (now %v)", cell.Name(), tp.page.Dirty())
			return
		}
		if !w.End(OCommit) {
			return
		}

	case cell.Recv == "page": // pages of finished / read-only transactions
		st := strings.TrimPrefix(cell.State, "tx:")
		ro := strings.HasPrefix(st, "ro-")
		how := st[3:]
		var tx *txfile.Tx
		var err error
		if w.guard("Begin", func() {
			if ro {
				tx, err = w.F.BeginReadonly()
			} else {
				tx, err = w.F.Begin()
			}
		}) || err != nil {
			fail("misuse-setup", "Begin failed: %v", err)
			return
		}
		var pg *txfile.Page
		if w.guard("Page", func() { pg, err = tx.Page(sortedLive()[0]) }) || err != nil {
			fail("misuse-setup", "Page failed: %v", err)
			return
		}
		if how != "active" {
			if !finishTx(tx, how) {
				return
			}
			if !ro && how == "committed" {
				w.LastTxid++
			}
		}
		ok := check(pageMethod(pg, cell.Method))
		if how == "active" {
			if ok && !w.verifyIn(tx, w.Committed, "misuse-ro-view") {
				ok = false
			}
			if !finishTx(tx, "closed") {
				return
			}
		}
		if !ok {
			return
		}
	}

	// committed state unchanged (except for what the model tracked), locks idle,
	// and the file still accepts transactions
	if !w.checkQuiescent("misuse " + cell.Name()) {
		return
	}
	if !w.Begin(txfile.TxOptions{}) || !w.Write(sortedLive()[0], 0, 0) || !w.End(OCommit) {
		return
	}
	w.Reopen()
}
