package filecheck

import (
	"encoding/binary"
	"fmt"
	"os"
	"os/exec"
	"path/filepath"
	"strings"
	"sync/atomic"
	"time"

	"github.com/gofrs/flock"

	txfile "github.com/elastic/go-txfile"
	"github.com/elastic/go-txfile/txerr"

	"verif/core"
)

// C18: the path lock is exclusive and always released (real OS files).

type osLockRun struct {
	c     *core.Case
	res   *core.Result
	dir   string
	path  string
	f     *txfile.File
	ps    uint32
	clock int64
	steps []string
	bad   bool
}

func (o *osLockRun) tick() int64 { return atomic.AddInt64(&o.clock, 1) }

func (o *osLockRun) step(format string, args ...interface{}) {
	o.steps = append(o.steps, fmt.Sprintf(format, args...))
}

func (o *osLockRun) violate(rule, format string, args ...interface{}) bool {
	o.bad = true
	n := len(o.steps)
	if n > 40 {
		n = 40
	}
	o.res.Violate("C18", rule, rule, fmt.Sprintf(format, args...), map[string]interface{}{"steps": o.steps[len(o.steps)-n:]})
	return false
}

// lockFree checks with an independent flock that the path lock can be taken right now.
func (o *osLockRun) lockFree(after string) bool {
	l := flock.NewFlock(o.path + ".lock")
	ok, err := l.TryLock()
	if err != nil {
		return o.violate("lock-probe-error", "after %s: probing the lock file failed: %v", after, err)
	}
	if !ok {
		return o.violate("lock-not-released", "after %s: the path lock is still held", after)
	}
	l.Unlock()
	o.res.Add("lock_free_probes", 1)
	return true
}

func (o *osLockRun) lockHeld(when string) bool {
	l := flock.NewFlock(o.path + ".lock")
	ok, err := l.TryLock()
	if err != nil {
		return o.violate("lock-probe-error", "%s: probing the lock file failed: %v", when, err)
	}
	if ok {
		l.Unlock()
		return o.violate("lock-not-held", "%s: the file is open but an independent flock on the lock file succeeds", when)
	}
	o.res.Add("lock_held_probes", 1)
	return true
}

func (o *osLockRun) opts() txfile.Options {
	// option variants that must not change the exclusiveness of the path lock
	op := txfile.Options{PageSize: o.ps, MaxSize: 0}
	switch o.c.R.Intn(6) {
	case 0:
		op.Readonly = true
	case 1:
		op.Sync = txfile.SyncData
	}
	return op
}

func (o *osLockRun) open() bool {
	f, err := txfile.Open(o.path, 0o600, o.opts())
	if err != nil {
		if txerr.Is(txfile.LockFailed, err) {
			return o.violate("open-refused-lock", "plain Open refused for locking although no File is open: %v", err)
		}
		return o.violate("open-failed", "plain Open failed: %+v", err)
	}
	o.f = f
	o.step("open ok")
	return o.lockHeld("after successful open")
}

func (o *osLockRun) close() bool {
	if o.f == nil {
		return true
	}
	err := o.f.Close()
	o.f = nil
	o.step("close")
	if err != nil {
		return o.violate("fclose-error", "Close failed: %v", err)
	}
	return o.lockFree("Close")
}

// secondOpen tries to open the file while it is open.
func (o *osLockRun) secondOpen() bool {
	f2, err := txfile.Open(o.path, 0o600, o.opts())
	if err == nil {
		f2.Close()
		return o.violate("double-open", "a second Open of the same path succeeded while the file is open")
	}
	if !txerr.Is(txfile.LockFailed, err) {
		return o.violate("double-open-kind", "second Open failed with kinds [%s], expected a lock error: %v", allKinds(err), err)
	}
	o.step("second open -> lock error")
	o.res.Add("second_open_refused", 1)
	return o.lockHeld("after refused second open")
}

// waitOpen: second opener with FlagWaitLock must return only after the first Close.
func (o *osLockRun) waitOpen() bool {
	type out struct {
		f   *txfile.File
		err error
		ret int64
	}
	ch := make(chan out, 1)
	opts := o.opts()
	opts.Flags |= txfile.FlagWaitLock
	started := o.tick()
	go func() {
		f2, err := txfile.Open(o.path, 0o600, opts)
		ch <- out{f2, err, o.tick()}
	}()
	// give the waiter the chance to (wrongly) get through
	for i := 0; i < 200; i++ {
		time.Sleep(50 * time.Microsecond)
		select {
		case r := <-ch:
			if r.err == nil {
				r.f.Close()
				return o.violate("wait-open-early", "Open with FlagWaitLock returned (clock %d) before the first File was closed (waiter started at %d)", r.ret, started)
			}
			return o.violate("wait-open-failed", "Open with FlagWaitLock failed instead of waiting: %v", r.err)
		default:
		}
	}
	closeCall := o.tick()
	if err := o.f.Close(); err != nil {
		return o.violate("fclose-error", "Close failed: %v", err)
	}
	o.f = nil
	select {
	case r := <-ch:
		if r.err != nil {
			return o.violate("wait-open-failed", "Open with FlagWaitLock failed after the first File was closed: %v", r.err)
		}
		if r.ret < closeCall {
			r.f.Close()
			return o.violate("wait-open-early", "waiting Open returned at %d before Close was called at %d", r.ret, closeCall)
		}
		o.f = r.f
		o.step("waiting open returned after close")
		o.res.Add("wait_open_ordered", 1)
		return o.lockHeld("after waiting open")
	case <-time.After(20 * time.Second):
		o.res.Status, o.res.Note = core.Inconclusive, "waiting-open-did-not-return"
		o.bad = true
		return false
	}
}

// closeWithReader calls Close while a read transaction is active: Close has to
// wait for the reader; until it has returned the path must stay locked.
func (o *osLockRun) closeWithReader() bool {
	tx, err := o.f.BeginReadonly()
	if err != nil {
		return o.violate("beginro-failed", "BeginReadonly failed: %v", err)
	}
	done := make(chan error, 1)
	f := o.f
	go func() { done <- f.Close() }()
	for i := 0; i < 40; i++ {
		time.Sleep(100 * time.Microsecond)
		l := flock.NewFlock(o.path + ".lock")
		got, lerr := l.TryLock()
		if got {
			l.Unlock()
		}
		select {
		case cerr := <-done:
			tx.Close()
			o.f = nil
			return o.violate("close-returned-early", "File.Close returned (%v) although a read transaction was still active", cerr)
		default:
		}
		if lerr == nil && got {
			// Close has not returned yet (checked after the probe), but the lock could be taken
			tx.Close()
			<-done
			o.f = nil
			return o.violate("lock-released-before-close-returned", "while File.Close is still waiting for an active read transaction, an independent flock on the lock file succeeds (a second Open would get the file)")
		}
	}
	o.res.Add("close_with_reader_probes", 40)
	if err := tx.Close(); err != nil {
		return o.violate("close-ro", "closing the read transaction failed: %v", err)
	}
	select {
	case cerr := <-done:
		o.f = nil
		if cerr != nil {
			return o.violate("fclose-error", "Close failed: %v", cerr)
		}
	case <-time.After(20 * time.Second):
		o.res.Status, o.res.Note = core.Inconclusive, "close-did-not-return"
		o.bad = true
		return false
	}
	o.step("close while a read transaction was active")
	return o.lockFree("Close (with reader)")
}

func writeHeaderSlot(path string, off int64, mutate func(b []byte)) error {
	fh, err := os.OpenFile(path, os.O_RDWR, 0)
	if err != nil {
		return err
	}
	defer fh.Close()
	b := make([]byte, HdrSize)
	if _, err := fh.ReadAt(b, off); err != nil {
		return err
	}
	mutate(b)
	_, err = fh.WriteAt(b, off)
	return err
}

// failingOpen performs one failing Open and checks that the lock is released.
func (o *osLockRun) failingOpen(kind int) bool {
	if o.f != nil && !o.close() {
		return false
	}
	backup, _ := os.ReadFile(o.path)
	restore := func() { os.WriteFile(o.path, backup, 0o600) }
	opts := o.opts()
	name := ""
	switch kind {
	case 0:
		name = "invalid page size option"
		opts.PageSize = 3000
	case 1:
		name = "both headers damaged"
		writeHeaderSlot(o.path, 0, func(b []byte) { b[2] ^= 0xff })
		writeHeaderSlot(o.path, int64(o.ps), func(b []byte) { b[40] ^= 0x01 })
	case 2:
		name = "file truncated to 10 bytes"
		os.Truncate(o.path, 10)
	case 3:
		name = "free list root out of range"
		for _, off := range []int64{0, int64(o.ps)} {
			writeHeaderSlot(o.path, off, func(b []byte) {
				binary.LittleEndian.PutUint64(b[offFreelist:], 1<<40)
				binary.LittleEndian.PutUint32(b[offChecksum:], HeaderChecksum(b))
			})
		}
	case 4:
		name = "overwrite mapping root out of range"
		for _, off := range []int64{0, int64(o.ps)} {
			writeHeaderSlot(o.path, off, func(b []byte) {
				binary.LittleEndian.PutUint64(b[offWAL:], 1<<41)
				binary.LittleEndian.PutUint32(b[offChecksum:], HeaderChecksum(b))
			})
		}
	case 5:
		name = "max size too small"
		opts.MaxSize = 5000
	case 6:
		name = "update max size below minimum"
		opts.Flags |= txfile.FlagUpdMaxSize
		opts.MaxSize = 4096
	case 7:
		name = "garbage page size in both headers"
		for _, off := range []int64{0, int64(o.ps)} {
			writeHeaderSlot(o.path, off, func(b []byte) {
				binary.LittleEndian.PutUint32(b[offPageSize:], 0)
				binary.LittleEndian.PutUint32(b[offChecksum:], HeaderChecksum(b))
			})
		}
	case 8:
		// the path does not exist: Open creates the file, the creation fails
		name = "creation fails: invalid page size"
		os.Remove(o.path)
		opts.PageSize = 3000
	case 9:
		name = "creation fails: preallocation refused by the file system"
		os.Remove(o.path)
		opts.MaxSize = 1 << 62
		opts.Prealloc = true
	}
	var f *txfile.File
	var err error
	panicked := false
	func() {
		defer func() {
			if p := recover(); p != nil {
				panicked = true
				o.step("failing open (%s) panicked: %v", name, p)
			}
		}()
		f, err = txfile.Open(o.path, 0o600, opts)
	}()
	if !panicked && err == nil {
		// not a failing open after all (e.g. option tolerated): fine, close again
		o.step("open with '%s' succeeded", name)
		o.f = f
		restoreNeeded := kind >= 1 && kind <= 4 || kind == 7
		ok := o.close()
		if restoreNeeded {
			restore()
		}
		return ok
	}
	o.step("failing open (%s): %v", name, err)
	o.res.Add("failing_opens", 1)
	o.res.SetAdd("failing_open_kinds", name)
	ok := o.lockFree("failed Open (" + name + ")")
	restore()
	if !ok {
		return false
	}
	// the path can be opened again immediately
	return o.open()
}

func runOSLockCase(c *core.Case) *core.Result {
	res := &core.Result{}
	r := c.R
	dir, err := os.MkdirTemp("", "verif-c18-")
	if err != nil {
		res.Status, res.Note = core.Inconclusive, "no-temp-dir"
		return res
	}
	defer os.RemoveAll(dir)
	o := &osLockRun{c: c, res: res, dir: dir, path: filepath.Join(dir, "test.dat"), ps: []uint32{1024, 4096}[r.Intn(2)]}
	defer func() {
		if o.f != nil {
			o.f.Close()
		}
		res.Key = fmt.Sprintf("%x", core.Hash64([]byte(strings.Join(o.steps, ";"))))
		res.Nontrivial = len(o.steps) >= 4
		res.Add("steps", int64(len(o.steps)))
		if c.Idx%19 == 0 {
			res.Sample = map[string]interface{}{"case": c.Idx, "steps": o.steps}
		}
	}()
	if !o.open() {
		return res
	}
	// put something into the file
	if tx, err := o.f.Begin(); err == nil {
		if pg, err := tx.Alloc(); err == nil {
			pg.SetBytes(make([]byte, o.ps))
			tx.SetRoot(pg.ID())
		}
		tx.Commit()
	}
	n := 6 + r.Intn(10)
	for i := 0; i < n && !o.bad; i++ {
		switch r.Pick([]int{20, 25, 35, 10, 10, 10}) {
		case 5:
			if o.f == nil && !o.open() {
				break
			}
			o.closeWithReader()
		case 0:
			if o.f == nil {
				o.open()
			} else {
				o.close()
			}
		case 1:
			if o.f == nil && !o.open() {
				break
			}
			o.secondOpen()
		case 2:
			o.failingOpen(r.Intn(10))
		case 3:
			if o.f == nil && !o.open() {
				break
			}
			o.waitOpen()
		case 4:
			if o.f != nil {
				o.close()
			}
			o.lockFree("idle")
		}
	}
	if !o.bad {
		o.close()
	}
	return res
}

// runStraceHelper runs the helper mode of this binary under strace with a
// syscall fault injected during file initialisation.
func runStraceCase(c *core.Case) *core.Result {
	res := &core.Result{}
	if _, err := exec.LookPath("strace"); err != nil {
		res.Status, res.Note = core.Inconclusive, "strace-not-available"
		return res
	}
	dir, err := os.MkdirTemp("", "verif-c18s-")
	if err != nil {
		res.Status, res.Note = core.Inconclusive, "no-temp-dir"
		return res
	}
	defer os.RemoveAll(dir)
	r := c.R
	// flock itself is not failed: strace cannot restrict the injection to the
	// acquiring calls, and a failing flock(LOCK_UN) leaves the lock held by
	// construction (the unlock did not happen), which says nothing about txfile
	sys := []string{"pwrite64", "fdatasync", "fsync", "mmap", "ftruncate", "fstat", "newfstatat", "openat"}[r.Intn(8)]
	errno := []string{"ENOSPC", "EIO", "EACCES", "ENOMEM"}[r.Intn(4)]
	when := 1 + r.Intn(6)
	self, _ := os.Executable()
	inject := fmt.Sprintf("inject=%s:error=%s:when=%d", sys, errno, when)
	if sys == "mmap" {
		// do not break the go runtime's own mappings before main starts: only late mmaps
		inject = fmt.Sprintf("inject=%s:error=%s:when=%d+", sys, "ENOMEM", 40+when*3)
	}
	if sys == "openat" {
		inject = fmt.Sprintf("inject=%s:error=%s:when=%d", sys, errno, 8+when)
	}
	cmd := exec.Command("strace", "-f", "-qq", "-o", "/dev/null", "-e", "trace="+sys, "-e", inject, self, "c18helper", filepath.Join(dir, "t.dat"))
	out, err := cmd.CombinedOutput()
	text := string(out)
	res.Key = inject
	res.Nontrivial = strings.Contains(text, "HELPER open-failed")
	res.Add("strace_runs", 1)
	res.SetAdd("strace_plans", sys+":"+errno)
	if strings.Contains(text, "HELPER open-failed") {
		res.Add("strace_failed_opens", 1)
	}
	if c.Idx%23 == 0 {
		res.Sample = map[string]interface{}{"case": c.Idx, "inject": inject, "helper_output": firstN(text, 600)}
	}
	switch {
	case strings.Contains(text, "HELPER VIOLATION"):
		i := strings.Index(text, "HELPER VIOLATION")
		line := text[i:]
		if j := strings.IndexByte(line, '\n'); j > 0 {
			line = line[:j]
		}
		res.Violate("C18", "strace-helper", "strace-helper:"+strings.Fields(line)[2], fmt.Sprintf("%s with %s", line, inject), map[string]interface{}{"output": firstN(text, 3000)})
	case strings.Contains(text, "HELPER done"):
	default:
		// the injected fault hit the go runtime or strace itself (e.g. failing
		// thread creation): nothing can be concluded
		res.Status, res.Note = core.Inconclusive, "helper-did-not-complete"
	}
	_ = err
	return res
}

func firstN(s string, n int) string {
	if len(s) > n {
		return s[:n]
	}
	return s
}

// OSLockHelperMain is executed (under strace) as `verifrun c18helper <path>`.
func OSLockHelperMain(path string) {
	probe := func() bool {
		l := flock.NewFlock(path + ".lock")
		ok, err := l.TryLock()
		if err != nil || !ok {
			return false
		}
		l.Unlock()
		return true
	}
	failed := 0
	for attempt := 0; attempt < 12; attempt++ {
		var f *txfile.File
		var err error
		func() {
			defer func() {
				if p := recover(); p != nil {
					fmt.Printf("HELPER VIOLATION open-panic %v\n", p)
					os.Exit(0)
				}
			}()
			f, err = txfile.Open(path, 0o600, txfile.Options{PageSize: 1024, MaxSize: 1 << 20, Prealloc: attempt%2 == 0})
		}()
		if err != nil {
			failed++
			fmt.Printf("HELPER open-failed attempt=%d kinds=%s\n", attempt, allKinds(err))
			// after any failed Open the path lock must be free (probe may itself be hit by the injected fault: retry)
			free := false
			for i := 0; i < 4 && !free; i++ {
				free = probe()
			}
			if !free {
				fmt.Printf("HELPER VIOLATION lock-not-released after failed open attempt=%d\n", attempt)
				os.Exit(0)
			}
			// a partially initialised file is not a valid file: start over
			os.Remove(path)
			continue
		}
		tx, err := f.Begin()
		if err == nil {
			if pg, err := tx.Alloc(); err == nil {
				pg.SetBytes(make([]byte, 1024))
			}
			tx.Commit()
		}
		if err := f.Close(); err != nil {
			fmt.Printf("HELPER close-error %v\n", err)
		}
		if !probe() && !probe() {
			fmt.Printf("HELPER VIOLATION lock-not-released after close attempt=%d\n", attempt)
			os.Exit(0)
		}
		if failed > 0 || attempt >= 2 {
			break
		}
	}
	fmt.Printf("HELPER done failed_opens=%d\n", failed)
}

func init() {
	core.Register(&core.Check{
		ID:          "C18",
		Level:       "exploration",
		Rule:        "case = PRNG sequence of open / second open / open with wait flag / failing open (invalid options, both headers damaged, truncated file, out-of-range free-list and overwrite-map roots, too small max size, invalid max-size update, garbage page size, failing creation of a new file: invalid page size / preallocation refused) / close on one path of the real OS file system; oracle = while open a second Open fails with a lock error and an independent flock on <path>.lock fails; a waiting Open returns (logical clock) only after the first Close was called; after Close and after EVERY failed Open an independent TryLock succeeds immediately and a plain Open is not refused; thorough additionally runs a helper process under `strace -e inject=` failing pwrite/fsync/mmap/ftruncate/fstat/openat during initialisation, followed by a fault-free Open in the same process; distinct = hash of step sequence; non-trivial = >=4 steps",
		Assumptions: []string{"advisory flock semantics of the sandbox's file system", "strace syscall injection (thorough tier) may hit the Go runtime instead of txfile: such runs are inconclusive"},
		NumCases:    func(t string) int { return tierN(t, 200, 5300) },
		Run: func(c *core.Case) *core.Result {
			if c.Tier == "thorough" && c.Idx >= 5000 {
				return runStraceCase(c)
			}
			return runOSLockCase(c)
		},
		CaseTimeout: func(t string) time.Duration { return 3 * time.Minute },
		Finalize: func(a *core.Aggregate) error {
			if a.Stats["failing_opens"] == 0 || a.Stats["second_open_refused"] == 0 || a.Stats["wait_open_ordered"] == 0 {
				return fmt.Errorf("failing open / refused second open / ordered waiting open not all observed")
			}
			return nil
		},
	})
}
