package filecheck

import (
	"encoding/binary"
	"hash/fnv"
)

// On-disk header layout of go-txfile (layout.go metaPage, packed, little endian).
const (
	HdrSize      = 84
	hdrMagic     = 0xBEA77AEB
	offMagic     = 0
	offVersion   = 4
	offPageSize  = 8
	offMaxSize   = 12
	offFlags     = 20
	offRoot      = 24
	offTxid      = 32
	offFreelist  = 40
	offWAL       = 48
	offDataEnd   = 56
	offMetaEnd   = 64
	offMetaTotal = 72
	offChecksum  = 80
)

// Header is a decoded file header slot.
type Header struct {
	Valid    bool
	Txid     uint64
	Root     uint64
	Freelist uint64
	WAL      uint64
	DataEnd  uint64
	MetaEnd  uint64
	PageSize uint32
	MaxSize  uint64
}

// HeaderChecksum computes the FNV-32a checksum over the first 80 bytes.
func HeaderChecksum(b []byte) uint32 {
	h := fnv.New32a()
	h.Write(b[:offChecksum])
	return h.Sum32()
}

// ParseHeader decodes the header slot at off (independent re-implementation of
// the validation rules: magic, version, checksum).
func ParseHeader(img []byte, off int) Header {
	if off+HdrSize > len(img) {
		return Header{}
	}
	b := img[off : off+HdrSize]
	h := Header{
		Txid:     binary.LittleEndian.Uint64(b[offTxid:]),
		Root:     binary.LittleEndian.Uint64(b[offRoot:]),
		Freelist: binary.LittleEndian.Uint64(b[offFreelist:]),
		WAL:      binary.LittleEndian.Uint64(b[offWAL:]),
		DataEnd:  binary.LittleEndian.Uint64(b[offDataEnd:]),
		MetaEnd:  binary.LittleEndian.Uint64(b[offMetaEnd:]),
		PageSize: binary.LittleEndian.Uint32(b[offPageSize:]),
		MaxSize:  binary.LittleEndian.Uint64(b[offMaxSize:]),
	}
	h.Valid = binary.LittleEndian.Uint32(b[offMagic:]) == hdrMagic &&
		binary.LittleEndian.Uint32(b[offVersion:]) == 1 &&
		binary.LittleEndian.Uint32(b[offChecksum:]) == HeaderChecksum(b)
	return h
}

// NewestHeader returns the header recovery must pick (valid, newest by signed
// txid difference) and its slot; slot -1 if none is valid.
func NewestHeader(img []byte, pageSize int) (Header, int) {
	h0, h1 := ParseHeader(img, 0), ParseHeader(img, pageSize)
	switch {
	case h0.Valid && h1.Valid:
		if int64(h0.Txid-h1.Txid) > 0 {
			return h0, 0
		}
		return h1, 1
	case h0.Valid:
		return h0, 0
	case h1.Valid:
		return h1, 1
	}
	return Header{}, -1
}
