package filecheck

import (
	"encoding/binary"
	"fmt"
	"runtime"
	"strconv"
	"strings"
	"sync"

	txfile "github.com/elastic/go-txfile"

	"verif/core"
	"verif/simdisk"
)

// Cooperative (strict) scheduler for small actor sets (C09).
//
// Actors are goroutines executing scripts of API calls on one File. An actor
// only runs between two yield points (script step boundaries and the hook
// points inside go-txfile); exactly one actor runs at a time. Before an actor
// is granted a point right in front of a lock acquisition, the scheduler
// evaluates the would-block predicate on the hooked lock state; an actor that
// would block is not enabled. Consequently: "no actor enabled and not all
// finished" is a deadlock as a state fact, and every schedule is replayable
// from its choice sequence. Schedules are enumerated depth first with a
// preemption bound. (Wake-up paths of blocked lock calls are exercised by the
// free-running stress runs, not here.)

type actorKind int

const (
	aReader actorKind = iota
	aWriterCommit
	aWriterRollback
	aCloser
)

func (k actorKind) String() string {
	return [...]string{"reader", "writer-commit", "writer-rollback", "closer"}[k]
}

// SchedActor is one cooperative actor.
type SchedActor = schedActor

type schedActor struct {
	Custom func(sr *SchedRun, a *SchedActor) // custom script (queue layer actors)
	id     int
	kind   actorKind
	reps   int
	gid    int64
	point  string // point the actor is parked at
	arg    int
	done   bool
	grant  chan struct{}

	inBegin  bool // between begin/enter and begin/locked
	inCommit bool // between commit/begin and commit/exit
	holdsRes bool // closer: past the acquisition of the reserved lock
}

// SchedRun is one execution of a schedule.
type SchedRun = schedRun

type schedRun struct {
	User   interface{} // state of custom actor sets
	f      *txfile.File
	disk   *simdisk.Disk
	actors []*schedActor
	byGID  sync.Map

	arrive chan *schedActor // actor parked at a point (or done)

	commits  int // completed successful commits
	closing  bool
	closed   bool
	activeRW int
	viol     string
	violRule string
	trace    []string
	root     txfile.PageID
}

func curGID() int64 {
	var buf [64]byte
	n := runtime.Stack(buf[:], false)
	s := strings.TrimPrefix(string(buf[:n]), "goroutine ")
	if i := strings.IndexByte(s, ' '); i > 0 {
		v, _ := strconv.ParseInt(s[:i], 10, 64)
		return v
	}
	return 0
}

// yield parks the calling actor at a point until the scheduler grants it.
func (sr *schedRun) yield(a *schedActor, point string, arg int) {
	a.point, a.arg = point, arg
	sr.arrive <- a
	<-a.grant
}

func (sr *schedRun) hook(name string, arg int) {
	v, ok := sr.byGID.Load(curGID())
	if !ok {
		return // background writer
	}
	a := v.(*schedActor)
	switch name {
	case "begin/enter":
		a.inBegin = true
	case "begin/locked":
		a.inBegin = false
		if arg == 0 {
			sr.activeRW++
			if sr.activeRW > 1 {
				sr.fail("two-writers", "two write transactions active")
			}
		}
	case "tx/unlock":
		if arg == 0 {
			sr.activeRW--
		}
	case "fclose/enter":
		sr.closing = true
	case "commit/begin":
		a.inCommit = true
	case "commit/exit":
		a.inCommit = false
	case "commit/switched":
		// from here on the new state is what new transactions see (once the
		// pending lock is released)
		sr.commits++
	case "fclose/exclusive":
		// Close is about to unmap the file: it must hold the pending lock, or
		// read transactions could be admitted into a file that is being closed
		if _, pending, _ := sr.f.VerifLockState(); !pending {
			sr.fail("close-without-pending", "File.Close passed its exclusive wait without the pending lock being set (readers could start during the unmap)")
		}
	}
	switch name {
	case "begin/enter", "commit/begin", "commit/pending-set", "commit/before-exclusive", "commit/exclusive-held", "commit/switched", "commit/exit",
		"tx/unlock", "fclose/enter", "fclose/reserved", "fclose/pending", "fclose/exclusive", "rollback/wait", "commit/abort-wait":
		sr.yield(a, name, arg)
	}
}

// lockHook is called right before every acquisition of a transaction lock: the
// would-block predicates of the scheduler are attached to the lock operations
// themselves, not to the call sites.
func (sr *schedRun) lockHook(name string, arg int) {
	v, ok := sr.byGID.Load(curGID())
	if !ok {
		return
	}
	a := v.(*schedActor)
	switch name {
	case "lock/shared", "lock/reserved", "lock/exclusive":
		sr.yield(a, name, arg)
		if name == "lock/reserved" && a.kind == aCloser && a.Custom == nil {
			a.holdsRes = true
		}
	}
}

func (sr *schedRun) fail(rule, format string, args ...interface{}) {
	if sr.viol == "" {
		sr.violRule = rule
		sr.viol = fmt.Sprintf(format, args...)
	}
}

// enabled evaluates the would-block predicate for the point the actor is parked at.
func (sr *schedRun) enabled(a *schedActor) bool {
	if a.done {
		return false
	}
	if sr.closed {
		return true // let it run into its end
	}
	if a.kind == aCloser && a.point == "start" {
		// documented precondition: no Begin is in progress when Close is called
		for _, o := range sr.actors {
			if o != a && !o.done && (o.inBegin || o.point == "begin/enter") {
				return false
			}
		}
	}
	shared, pending, resFree := sr.f.VerifLockState()
	switch a.point {
	case "lock/shared":
		return !pending
	case "lock/reserved":
		return resFree
	case "lock/exclusive":
		return shared == 0
	}
	return true
}

// checkInvariant evaluates the lock state invariants at a decision point (no
// actor is running).
func (sr *schedRun) checkInvariant() {
	if sr.closed || sr.viol != "" {
		return
	}
	_, pending, _ := sr.f.VerifLockState()
	if !pending {
		return
	}
	// pending set = BeginReadonly would block now. Legitimate holders: a commit
	// in progress, or File.Close after it got the reserved lock (no write
	// transaction open any more).
	for _, o := range sr.actors {
		if o.inCommit || o.holdsRes {
			return
		}
	}
	if sr.activeRW > 0 {
		sr.fail("readers-blocked-by-open-writer", "the pending lock is set (BeginReadonly would block) while a write transaction is open that is not committing and nobody holds the reserved lock for Close: read transactions do not run concurrently with the write transaction")
	}
}

func (sr *schedRun) actorMain(a *schedActor) {
	a.gid = curGID()
	sr.byGID.Store(a.gid, a)
	defer func() {
		if p := recover(); p != nil {
			sr.fail("panic", "panic in %s %d: %v", a.kind, a.id, p)
		}
		a.done = true
		sr.arrive <- a
	}()
	sr.yield(a, "start", 0)
	if a.Custom != nil {
		a.Custom(sr, a)
		return
	}
	for rep := 0; rep < a.reps; rep++ {
		switch a.kind {
		case aReader:
			if sr.closing {
				return
			}
			before := sr.commits
			tx, err := sr.f.BeginReadonly()
			if err != nil {
				sr.fail("beginro-failed", "BeginReadonly failed: %v", err)
				return
			}
			after := sr.commits
			sr.yield(a, "reader/scan", 0)
			pg, err := tx.RootPage()
			if err != nil || pg == nil {
				sr.fail("reader-root", "root not accessible: %v", err)
				return
			}
			b, err := pg.Bytes()
			if err != nil {
				sr.fail("reader-root", "root not readable: %v", err)
				return
			}
			v := int(binary.LittleEndian.Uint64(b[8:]))
			if v < before || v > after {
				sr.fail("reader-view", "reader %d sees commit %d, but %d..%d commits were complete around its Begin", a.id, v, before, after)
			}
			sr.yield(a, "reader/close", 0)
			if err := tx.Close(); err != nil {
				sr.fail("close-ro", "Close failed: %v", err)
			}
		case aWriterCommit, aWriterRollback:
			if sr.closing {
				return
			}
			tx, err := sr.f.Begin()
			if err != nil {
				sr.fail("begin-failed", "Begin failed: %v", err)
				return
			}
			pg, err := tx.RootPage()
			if err == nil && pg != nil {
				n := sr.commits + 1
				err = pg.SetBytes(Stamp(pg.ID(), uint64(n), tx.PageSize()))
			}
			if err != nil {
				sr.fail("writer-op", "write failed: %v", err)
				tx.Close()
				return
			}
			sr.yield(a, "writer/end", 0)
			if a.kind == aWriterCommit {
				if err := tx.Commit(); err != nil {
					sr.fail("commit-error", "Commit failed: %v", err)
					return
				}
			} else if err := tx.Rollback(); err != nil {
				sr.fail("abort-error", "Rollback failed: %v", err)
				return
			}
		case aCloser:
			if err := sr.f.Close(); err != nil {
				sr.fail("fclose-error", "File.Close failed: %v", err)
			}
			sr.closed = true
		}
		sr.yield(a, "step", 0)
	}
}

// schedOutcome of one executed schedule.
type schedOutcome struct {
	choices  []int   // actor chosen at every decision
	enabledN [][]int // enabled actors at every decision
	trace    string
	rule     string
	msg      string
}

// runSchedule executes one schedule: follow prefix, then the default policy
// (stay with the running actor if enabled, else lowest enabled id).
func runSchedule(kinds []actorKind, reps int, prefix []int) schedOutcome {
	return runScheduleGeneric(kinds, reps, prefix, nil)
}

func runScheduleGeneric(kinds []actorKind, reps int, prefix []int, cs *CustomSet) schedOutcome {
	sr := &schedRun{arrive: make(chan *schedActor)}
	cfg := Config{PageSize: 1024, DiskCap: 1 << 20}
	if cs != nil {
		cfg = cs.Cfg
	}
	sr.disk = simdisk.New("simdisk", cfg.DiskCap)
	sr.disk.SetRecording(false)
	var out schedOutcome
	f, err := txfile.VerifOpenWith(sr.disk, cfg.Options(), sr.hook)
	if err != nil {
		out.rule, out.msg = "open-failed", err.Error()
		return out
	}
	sr.f = f
	defer f.VerifTraceLocks(sr.lockHook)()
	if cs == nil {
		// initial state: root page with version 0
		tx, _ := f.Begin()
		pg, _ := tx.Alloc()
		pg.SetBytes(Stamp(pg.ID(), 0, 1024))
		tx.SetRoot(pg.ID())
		if err := tx.Commit(); err != nil {
			out.rule, out.msg = "commit-error", err.Error()
			return out
		}
	} else if err := cs.Setup(sr); err != nil {
		out.rule, out.msg = "setup-failed", err.Error()
		return out
	}
	sr.commits = 0

	for i, k := range kinds {
		r := reps
		if k == aCloser {
			r = 1
		}
		sr.actors = append(sr.actors, &schedActor{id: i, kind: k, reps: r, grant: make(chan struct{})})
	}
	if cs != nil {
		for i, fn := range cs.Actors {
			sr.actors = append(sr.actors, &schedActor{id: i, kind: aWriterCommit, reps: 1, grant: make(chan struct{}), Custom: fn})
		}
	}
	for _, a := range sr.actors {
		go sr.actorMain(a)
		<-sr.arrive // parked at "start"
	}
	current := -1
	var tr []string
	for step := 0; ; step++ {
		var en []int
		allDone := true
		for _, a := range sr.actors {
			if !a.done {
				allDone = false
				if sr.enabled(a) {
					en = append(en, a.id)
				}
			}
		}
		if allDone {
			break
		}
		sr.checkInvariant()
		if sr.viol != "" {
			break
		}
		if len(en) == 0 {
			shared, pending, resFree := sr.f.VerifLockState()
			var parked []string
			for _, a := range sr.actors {
				if !a.done {
					parked = append(parked, fmt.Sprintf("%s#%d@%s", a.kind, a.id, a.point))
				}
			}
			sr.fail("deadlock", "no actor can proceed: %s; lock state shared=%d pending=%v reservedFree=%v", strings.Join(parked, ", "), shared, pending, resFree)
			break
		}
		choice := -1
		if step < len(prefix) {
			for _, e := range en {
				if e == prefix[step] {
					choice = e
				}
			}
		}
		if choice < 0 {
			for _, e := range en {
				if e == current {
					choice = e
				}
			}
			if choice < 0 {
				choice = en[0]
			}
		}
		out.choices = append(out.choices, choice)
		out.enabledN = append(out.enabledN, en)
		a := sr.actors[choice]
		tr = append(tr, fmt.Sprintf("%d@%s", choice, a.point))
		current = choice
		a.grant <- struct{}{}
		<-sr.arrive // the granted actor parks again (or finishes); nobody else runs
		if step > 2000 {
			sr.fail("harness", "schedule does not terminate")
			break
		}
	}
	if sr.viol == "" && cs != nil && cs.Final != nil {
		cs.Final(sr)
	}
	if sr.viol == "" {
		if !sr.closed {
			shared, pending, resFree := sr.f.VerifLockState()
			if shared != 0 || pending || !resFree {
				sr.fail("lock-leak", "all actors finished but lock state is shared=%d pending=%v reservedFree=%v", shared, pending, resFree)
			} else if err := sr.f.Close(); err != nil {
				sr.fail("fclose-error", "File.Close failed: %v", err)
			}
		}
		if sr.viol == "" && (sr.disk.Locked() || !sr.disk.Closed()) {
			sr.fail("fclose-lock", "file not closed/unlocked at the end")
		}
	}
	out.trace = strings.Join(tr, " ")
	out.rule, out.msg = sr.violRule, sr.viol
	// actors parked forever after a violation are abandoned (goroutine leak in the worker process only)
	return out
}

// exploreSchedules enumerates schedules depth first with a preemption bound.
func exploreSchedules(kinds []actorKind, reps, maxPreempt, budget int, res *core.Result, seen map[string]bool) (executed int, viol *schedOutcome) {
	type node struct {
		prefix   []int
		preempts int
	}
	stack := []node{{}}
	for len(stack) > 0 && executed < budget {
		n := stack[len(stack)-1]
		stack = stack[:len(stack)-1]
		out := runSchedule(kinds, reps, n.prefix)
		executed++
		if !seen[out.trace] {
			seen[out.trace] = true
		}
		if out.rule != "" {
			return executed, &out
		}
		// branch on every decision after the prefix
		for d := len(out.choices) - 1; d >= len(n.prefix); d-- {
			prev := -1
			if d > 0 {
				prev = out.choices[d-1]
			}
			for _, alt := range out.enabledN[d] {
				if alt == out.choices[d] {
					continue
				}
				cost := 0
				// switching away from an actor that could continue is a preemption
				for _, e := range out.enabledN[d] {
					if e == prev {
						cost = 1
					}
				}
				if n.preempts+cost > maxPreempt {
					continue
				}
				np := append(append([]int{}, out.choices[:d]...), alt)
				stack = append(stack, node{np, n.preempts + cost})
			}
		}
	}
	return executed, nil
}

func runSchedCase(c *core.Case) *core.Result {
	res := &core.Result{}
	r := c.R
	sets := [][]actorKind{
		{aReader, aWriterCommit},
		{aReader, aReader, aWriterCommit},
		{aReader, aWriterCommit, aCloser},
		{aReader, aWriterCommit, aWriterRollback},
		{aReader, aReader, aWriterCommit, aCloser},
		{aWriterCommit, aWriterCommit, aReader},
		{aReader, aWriterRollback, aCloser},
		{aReader, aReader, aWriterCommit, aWriterRollback, aCloser},
	}
	kinds := sets[c.Idx/4%len(sets)]
	reps := 1 + r.Intn(2)
	budget := 150
	maxPre := 2
	if c.Tier == "thorough" {
		budget, maxPre = 4000, 3
	}
	seen := map[string]bool{}
	n, viol := exploreSchedules(kinds, reps, maxPre, budget, res, seen)
	var names []string
	for _, k := range kinds {
		names = append(names, k.String())
	}
	res.Add("schedules_executed", int64(n))
	res.Add("distinct_schedules", int64(len(seen)))
	res.SetAdd("actor_sets", strings.Join(names, "+"))
	res.Key = fmt.Sprintf("sched-%s-%d-%d", strings.Join(names, "+"), reps, len(seen))
	res.Nontrivial = len(seen) > 10
	if viol != nil {
		res.Violate("C09", "sched-"+viol.rule, "sched-"+viol.rule, fmt.Sprintf("actors %v x%d, schedule [%s]: %s", names, reps, viol.trace, viol.msg),
			map[string]interface{}{"actors": names, "reps": reps, "choices": viol.choices})
	}
	if c.Idx%16 == 3 {
		var one string
		for k := range seen {
			one = k
			break
		}
		res.Sample = map[string]interface{}{"case": c.Idx, "actors": names, "reps": reps, "schedules": n, "one_schedule": one}
	}
	return res
}

// Yield parks a custom actor at a named point.
func (sr *schedRun) Yield(a *schedActor, point string) { sr.yield(a, point, 0) }

// Fail records a violation of the running schedule.
func (sr *schedRun) Fail(rule, format string, args ...interface{}) { sr.fail(rule, format, args...) }

// File returns the file of the run.
func (sr *schedRun) File() *txfile.File { return sr.f }

// Closing reports whether File.Close has been called.
func (sr *schedRun) Closing() bool { return sr.closing }

// ID returns the actor id.
func (a *schedActor) ID() int { return a.id }

// CustomSet describes a custom actor set for the scheduler.
type CustomSet struct {
	Name   string
	Cfg    Config
	Setup  func(sr *SchedRun) error // after the file has been opened
	Actors []func(sr *SchedRun, a *SchedActor)
	Final  func(sr *SchedRun) // after all actors finished (file still open)
}

// ExploreCustom enumerates schedules of a custom actor set.
func ExploreCustom(cs CustomSet, maxPreempt, budget int, seen map[string]bool) (executed int, rule, msg, trace string) {
	type node struct {
		prefix   []int
		preempts int
	}
	stack := []node{{}}
	for len(stack) > 0 && executed < budget {
		n := stack[len(stack)-1]
		stack = stack[:len(stack)-1]
		out := runScheduleGeneric(nil, 0, n.prefix, &cs)
		executed++
		seen[out.trace] = true
		if out.rule != "" {
			return executed, out.rule, out.msg, out.trace
		}
		for d := len(out.choices) - 1; d >= len(n.prefix); d-- {
			prev := -1
			if d > 0 {
				prev = out.choices[d-1]
			}
			for _, alt := range out.enabledN[d] {
				if alt == out.choices[d] {
					continue
				}
				cost := 0
				for _, e := range out.enabledN[d] {
					if e == prev {
						cost = 1
					}
				}
				if n.preempts+cost > maxPreempt {
					continue
				}
				np := append(append([]int{}, out.choices[:d]...), alt)
				stack = append(stack, node{np, n.preempts + cost})
			}
		}
	}
	return executed, "", "", ""
}
