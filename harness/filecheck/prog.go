package filecheck

import (
	txfile "github.com/elastic/go-txfile"

	"verif/core"
)

// GenParams shapes generated programs.
type GenParams struct {
	Txs        int // number of transactions
	OpsPerTx   int // max ops per transaction
	WAlloc     int
	WWrite     int
	WRead      int
	WFree      int
	WFlushPage int
	WFlushTx   int
	WCheckpt   int
	WSetRoot   int
	PCommit    int // percent of transactions that commit (others rollback/close)
	PReopen    int // percent chance of a reopen between transactions
	PROTx      int // percent chance of an explicit read-only scan between transactions
	MaxAllocN  int
	Overflow   int // percent of transactions enabling the overflow area
}

// DefaultGen is the general op mix.
func DefaultGen() GenParams {
	return GenParams{Txs: 20, OpsPerTx: 12, WAlloc: 30, WWrite: 40, WRead: 15, WFree: 18, WFlushPage: 6, WFlushTx: 4, WCheckpt: 3, WSetRoot: 3,
		PCommit: 75, PReopen: 6, PROTx: 0, MaxAllocN: 6}
}

var walLimits = []int{0, 1, 2, 3, 1000}
var growPcts = []int{0, 10, 50, 100}

// GenProgram generates an abstract program.
func GenProgram(r *core.Rand, p GenParams) []Op {
	var prog []Op
	weights := []int{p.WAlloc, p.WWrite, p.WRead, p.WFree, p.WFlushPage, p.WFlushTx, p.WCheckpt, p.WSetRoot}
	kinds := []OpKind{OAlloc, OWrite, ORead, OFree, OFlushPage, OFlushTx, OCheckpoint, OSetRoot}
	for t := 0; t < p.Txs; t++ {
		flags := 0
		if r.Chance(p.Overflow, 100) {
			flags |= 1
		}
		prog = append(prog, Op{K: OBegin, A: flags, B: walLimits[r.Intn(len(walLimits))], C: growPcts[r.Intn(len(growPcts))]})
		n := 1 + r.Intn(p.OpsPerTx)
		for i := 0; i < n; i++ {
			k := kinds[r.Pick(weights)]
			op := Op{K: k, A: r.Intn(1 << 20)}
			switch k {
			case OAlloc:
				op.A = 1
				if r.Chance(1, 3) {
					op.A = 1 + r.Intn(p.MaxAllocN)
				}
				op.B = r.Pick([]int{2, 5, 2, 2}) // fill: none, full, partial, load+dirty
			case OWrite:
				op.B = r.Pick([]int{5, 3, 3, 1})
				if r.Chance(1, 4) {
					op.C = []int{1, 2, 83, 84, 85, 511, 512, 1023}[r.Intn(8)]
				}
			}
			prog = append(prog, op)
		}
		switch {
		case r.Chance(p.PCommit, 100):
			prog = append(prog, Op{K: OCommit})
		case r.Chance(1, 2):
			prog = append(prog, Op{K: ORollback})
		default:
			prog = append(prog, Op{K: OClose})
		}
		if r.Chance(p.PReopen, 100) {
			prog = append(prog, Op{K: OReopen})
		}
		if r.Chance(p.PROTx, 100) {
			prog = append(prog, Op{K: OBeginRO})
		}
	}
	return prog
}

// Exec executes one abstract op. Returns false once a violation is recorded.
func (w *World) Exec(op Op) bool {
	if w.failed {
		return false
	}
	w.lenSeed = uint64(op.A)*31 + uint64(op.C)
	switch op.K {
	case OMark:
		if w.Tx != nil {
			if !w.End(OClose) {
				return false
			}
		}
		w.tracef("MARK %d", op.A)
		return true
	case OReopenResize:
		if w.Tx != nil {
			if !w.End(OClose) {
				return false
			}
		}
		minPages := 64 * 1024 / int(w.Cfg.PageSize)
		sizes := []int{0, minPages, minPages + 9, minPages + 64, minPages + 200}
		rs := resizeSpec{OldPages: w.Cfg.MaxPages, NewPages: sizes[op.A%len(sizes)], Prealloc: op.B%2 == 1}
		if rs.NewPages == rs.OldPages {
			rs.NewPages = sizes[(op.A+1)%len(sizes)]
		}
		return w.reopenResized(rs)
	case OProbe:
		if w.Tx != nil || w.Cfg.MaxPages == 0 {
			return true
		}
		n, ok := w.Probe()
		w.tracef("probe -> %d", n)
		return ok
	case OBegin:
		if w.Tx != nil {
			if !w.End(OClose) {
				return false
			}
		}
		return w.Begin(txfile.TxOptions{EnableOverflowArea: op.A&1 != 0, WALLimit: uint(op.B), MetaAreaGrowPercentage: op.C})
	case OReopen:
		if w.Tx != nil {
			if !w.End(OClose) {
				return false
			}
		}
		return w.Reopen()
	case OBeginRO:
		if w.Tx != nil {
			return true
		}
		return w.VerifyCommitted()
	}
	if w.Tx == nil {
		return true // skipped
	}
	sel := func(ids []txfile.PageID) (txfile.PageID, bool) {
		if len(ids) == 0 {
			return 0, false
		}
		return ids[op.A%len(ids)], true
	}
	switch op.K {
	case OAlloc:
		return w.Alloc(op.A, op.B)
	case OWrite:
		if id, ok := sel(w.candWrite()); ok {
			return w.Write(id, op.B, op.C)
		}
	case ORead:
		if id, ok := sel(w.candRead()); ok {
			return w.Read(id)
		}
	case OFree:
		if id, ok := sel(w.candFree()); ok {
			return w.Free(id)
		}
	case OFreeTop:
		cf := w.candFree()
		for i := 0; i < op.A && len(cf) > 0; i++ {
			id := cf[len(cf)-1]
			cf = cf[:len(cf)-1]
			if !w.Free(id) {
				return false
			}
		}
	case OFreeNew:
		var ids []txfile.PageID
		for id, tp := range w.txPages {
			if tp.isNew && !tp.freed && !tp.flushed && !tp.dirty && id != w.txRoot {
				ids = append(ids, id)
			}
		}
		sortIDs(ids)
		if id, ok := sel(ids); ok {
			return w.Free(id)
		}
	case OFlushPage:
		if id, ok := sel(w.candFlush()); ok {
			return w.FlushPage(id)
		}
	case OFlushTx:
		return w.FlushTx()
	case OCheckpoint:
		return w.Checkpoint()
	case OSetRoot:
		if id, ok := sel(w.candRead()); ok {
			w.SetRoot(id)
		}
	case OCommit, ORollback, OClose:
		return w.End(op.K)
	}
	return true
}

// Run executes a whole program; the file must be open. A running transaction
// is closed at the end.
func (w *World) Run(prog []Op) bool {
	for _, op := range prog {
		if !w.Exec(op) {
			return false
		}
	}
	if w.Tx != nil {
		return w.End(OClose)
	}
	return true
}

// GenConfig picks a point of the configuration lattice.
func GenConfig(r *core.Rand, bounded int) Config {
	cfg := Config{PageSize: 1024}
	if r.Chance(1, 4) {
		cfg.PageSize = 4096
	}
	isBounded := false
	switch bounded {
	case 0:
		isBounded = false
	case 1:
		isBounded = true
	default:
		isBounded = r.Chance(1, 2)
	}
	if isBounded {
		// at least 64KiB (the minimum mmap size for bounded files)
		minPages := (64*1024 + int(cfg.PageSize) - 1) / int(cfg.PageSize)
		cfg.MaxPages = minPages + []int{0, 1, 7, 32, 64, 192, 448}[r.Intn(7)]
		if r.Chance(1, 4) {
			cfg.MaxSizeOdd = 1 + r.Intn(int(cfg.PageSize)-1)
		}
		cfg.Prealloc = r.Chance(1, 4)
	}
	cfg.InitMetaArea = []uint32{0, 0, 1, 2, 8, 32}[r.Intn(6)]
	if cfg.MaxPages > 0 && int(cfg.InitMetaArea) >= cfg.MaxPages-2 {
		cfg.InitMetaArea = 2
	}
	cfg.SyncMode = r.Intn(3) // default, data, full
	cfg.DiskCap = 2 << 20
	if cfg.MaxPages > 0 {
		need := (cfg.MaxPages + 64) * int(cfg.PageSize)
		if need > cfg.DiskCap {
			cfg.DiskCap = need
		}
	}
	return cfg
}

// churnTxs generates transactions that allocate pages, free pages they just
// allocated (first, last or any), allocate again, ... and end without commit,
// each followed by a small committing transaction that allocates (a page
// handed out twice shows in the ownership monitor and in the contents).
func churnTxs(r *core.Rand) []Op {
	var prog []Op
	for t := 0; t < 2+r.Intn(4); t++ {
		prog = append(prog, Op{K: OBegin, A: r.Intn(4), B: []int{0, 0, 3, 1000}[r.Intn(4)]})
		for i := 0; i < 3+r.Intn(8); i++ {
			switch r.Intn(5) {
			case 0, 1:
				prog = append(prog, Op{K: OAlloc, A: 1 + r.Intn(3), B: 0})
			case 2:
				prog = append(prog, Op{K: OFreeNew, A: 0}) // the lowest new page
			case 3:
				prog = append(prog, Op{K: OFreeNew, A: r.Intn(8)})
			default:
				prog = append(prog, Op{K: OFreeTop, A: 1 + r.Intn(2)})
			}
		}
		prog = append(prog, Op{K: []OpKind{ORollback, OClose, ORollback, OCommit}[r.Intn(4)]})
		prog = append(prog, Op{K: OBegin}, Op{K: OAlloc, A: 1 + r.Intn(4), B: 1}, Op{K: OCommit})
	}
	return prog
}
