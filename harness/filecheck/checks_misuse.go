package filecheck

import (
	"fmt"

	"verif/core"
)

// Queue layer cells are provided by package pqcheck.
var (
	QueueMisuseCells func() []string
	RunQueueMisuse   func(c *core.Case, name string, res *core.Result)
)

func misusePrefixes(tier string) int { return tierN(tier, 4, 80) }

func init() {
	core.Register(&core.Check{
		ID:          "C15",
		Level:       "exploration",
		Exhaustive:  true,
		Rule:        "cells = complete finite matrix (API method x receiver lifecycle state) for Tx, Page (in active, read-only and finished transactions; page states clean/loaded/dirty/new-empty/new-dirty/flushed/freed) and the queue (Writer/Reader/ACK on closed/empty/inactive receivers), each cell executed after N PRNG prefix histories under recover(); oracle = no panic, call returns, error kind in the documented set, view of the running transaction and committed state unchanged (model differential, continuing and committing afterwards, reopen); distinct = cell x prefix trace hash; every case is non-trivial (one misuse call each). exhaustive refers to the cell set, prefixes are sampled.",
		Assumptions: append([]string{"expected kinds per cell derived from the API documentation and guards (DESIGN.md Appendix A); where the guard order is undocumented either kind is accepted"}, simdiskAssumptions...),
		NumCases: func(t string) int {
			n := len(MisuseCells())
			if QueueMisuseCells != nil {
				n += len(QueueMisuseCells())
			}
			return n * misusePrefixes(t)
		},
		Run: func(c *core.Case) *core.Result {
			res := &core.Result{}
			cells := MisuseCells()
			var q []string
			if QueueMisuseCells != nil {
				q = QueueMisuseCells()
			}
			ci := c.Idx % (len(cells) + len(q))
			if ci < len(cells) {
				RunMisuseCell(c, cells[ci], res)
				res.SetAdd("cells", cells[ci].Name())
			} else {
				name := q[ci-len(cells)]
				RunQueueMisuse(c, name, res)
				res.SetAdd("cells", "queue:"+name)
			}
			if c.Idx%211 == 0 {
				res.Sample = map[string]interface{}{"case": c.Idx, "cell": res.Sets["cells"]}
			}
			res.Add("misuse_calls", 1)
			return res
		},
		Finalize: func(a *core.Aggregate) error {
			want := len(MisuseCells())
			if QueueMisuseCells != nil {
				want += len(QueueMisuseCells())
			}
			if got := len(a.Sets["cells"]); got != want {
				return fmt.Errorf("only %d of %d cells executed", got, want)
			}
			return nil
		},
		Extra: func(a *core.Aggregate) map[string]interface{} {
			return map[string]interface{}{"cells_total": len(a.Sets["cells"])}
		},
	})
}
