package filecheck

import (
	"fmt"
	"strings"

	"verif/core"
)

// Twin runs: the same program is executed on two simulated disks, once with and
// once without an interposed element (an aborted transaction for C07, close/
// reopen for C10). Everything observable after the difference must agree.

// runProgram executes prog on a fresh world and returns it.
func runProgram(c *core.Case, cfg Config, mon Monitors, prog []Op, res *core.Result, seed int64) *World {
	w := NewWorld(cfg, mon, core.NewRand(seed, "twin", 0), res)
	w.KeepTrace = true
	if !w.Open() {
		return w
	}
	for _, op := range prog {
		if !w.Exec(op) {
			break
		}
	}
	if !w.failed && w.Tx != nil {
		w.End(OClose)
	}
	if w.F != nil && w.Tx == nil {
		f := w.F
		w.guard("File.Close(final)", func() { f.Close() })
		w.F = nil
	}
	return w
}

// observable extracts the trace lines that a user can observe, after the last
// marker with the given number.
func observable(trace []string, mark int) []string {
	start := 0
	key := fmt.Sprintf("MARK %d", mark)
	for i, l := range trace {
		if l == key {
			start = i + 1
		}
	}
	var out []string
	for _, l := range trace[start:] {
		switch {
		case strings.HasPrefix(l, "open"), strings.HasPrefix(l, "fclose"), strings.HasPrefix(l, "MARK"):
			continue
		}
		out = append(out, l)
	}
	return out
}

func firstDiff(a, b []string) (int, string, string) {
	for i := 0; i < len(a) || i < len(b); i++ {
		x, y := "<end>", "<end>"
		if i < len(a) {
			x = a[i]
		}
		if i < len(b) {
			y = b[i]
		}
		if x != y {
			return i, x, y
		}
	}
	return -1, "", ""
}

// twinCompare runs progA and progB and compares what is observable after mark.
// Because internal meta page choice depends on map iteration order, a mismatch
// only counts if both sides are self-consistent over reruns.
func twinCompare(c *core.Case, cfg Config, mon Monitors, progA, progB []Op, mark int, res *core.Result, what string) {
	seed := c.R.Int63()
	subA, subB := &core.Result{}, &core.Result{}
	a := runProgram(c, cfg, mon, progA, subA, seed)
	b := runProgram(c, cfg, mon, progB, subB, seed)
	for _, s := range []*core.Result{subA, subB} {
		if len(s.Violations) > 0 {
			res.Violations = append(res.Violations, s.Violations...)
			res.Status = core.Violated
			return
		}
	}
	oa, ob := observable(a.Trace, mark), observable(b.Trace, mark)
	res.Add("twin_runs", 1)
	res.Add("twin_observations_compared", int64(len(oa)))
	i, x, y := firstDiff(oa, ob)
	if i < 0 {
		return
	}
	// rerun both sides: are they deterministic?
	for k := 0; k < 2; k++ {
		a2 := runProgram(c, cfg, mon, progA, &core.Result{}, seed)
		b2 := runProgram(c, cfg, mon, progB, &core.Result{}, seed)
		if j, _, _ := firstDiff(oa, observable(a2.Trace, mark)); j >= 0 {
			res.Status, res.Note = core.Inconclusive, "twin-side-not-deterministic"
			return
		}
		if j, _, _ := firstDiff(ob, observable(b2.Trace, mark)); j >= 0 {
			res.Status, res.Note = core.Inconclusive, "twin-side-not-deterministic"
			return
		}
	}
	lo := i - 8
	if lo < 0 {
		lo = 0
	}
	res.Violate(mon.Property, "twin-divergence", "twin-divergence:"+classify(x, y), fmt.Sprintf("%s: observation #%d differs: with=%q without=%q", what, i, x, y),
		map[string]interface{}{"config": cfg, "with_tail": oa[lo:min(i+3, len(oa))], "without_tail": ob[lo:min(i+3, len(ob))]})
}

func min(a, b int) int {
	if a < b {
		return a
	}
	return b
}

func classify(x, y string) string {
	f := func(s string) string {
		if i := strings.IndexAny(s, "( "); i > 0 {
			return s[:i]
		}
		return s
	}
	return f(x) + "/" + f(y)
}

// genTwinAbort builds H ; MARK ; T(aborted) ; MARK' ; K and H ; MARK ; MARK' ; K.
func genTwinAbort(r *core.Rand) (with, without []Op) {
	p := DefaultGen()
	p.PReopen = 0
	p.Txs = 2 + r.Intn(10)
	p.WFree, p.WAlloc, p.MaxAllocN = 25, 35, 10
	p.Overflow = 20
	h := GenProgram(r, p)
	// aborted transaction body
	p.Txs = 1
	p.OpsPerTx = 14
	p.PCommit = 0
	p.WFlushPage, p.WFlushTx = 10, 8
	t := GenProgram(r, p)
	p.Txs = 2 + r.Intn(8)
	p.OpsPerTx = 10
	p.PCommit = 80
	k := GenProgram(r, p)
	k = append(k, Op{K: OProbe}, Op{K: OReopen}, Op{K: OBegin}, Op{K: OAlloc, A: 3, B: 1}, Op{K: OCommit}, Op{K: OProbe})
	with = append(append(append(append([]Op{}, h...), Op{K: OMark, A: 1}), t...), Op{K: OMark, A: 2})
	with = append(with, k...)
	without = append(append(append([]Op{}, h...), Op{K: OMark, A: 1}), Op{K: OMark, A: 2})
	without = append(without, k...)
	return
}

// genTwinReopen builds a program and the same program with reopens interposed.
func genTwinReopen(r *core.Rand) (with, without []Op) {
	p := DefaultGen()
	p.PReopen = 0
	p.Txs = 6 + r.Intn(20)
	p.WFree = 25
	prog := GenProgram(r, p)
	for _, op := range prog {
		without = append(without, op)
		with = append(with, op)
		if (op.K == OCommit || op.K == ORollback || op.K == OClose) && r.Chance(1, 3) {
			with = append(with, Op{K: OReopen})
		}
	}
	tail := []Op{{K: OProbe}}
	with = append(with, tail...)
	without = append(without, tail...)
	return
}
