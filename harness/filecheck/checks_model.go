package filecheck

import (
	"fmt"
	"sync"
	"sync/atomic"
	"time"

	"verif/core"
	"verif/simdisk"
)

// gate lets the harness stall the background writer of txfile.
type gate struct {
	mu     sync.Mutex
	cond   *sync.Cond
	closed bool
	stalls int

	maxBatch   int64
	batchesGT1 int64
}

func newGate() *gate   { g := &gate{}; g.cond = sync.NewCond(&g.mu); return g }
func (g *gate) Close() { g.mu.Lock(); g.closed = true; g.mu.Unlock() }
func (g *gate) Open()  { g.mu.Lock(); g.closed = false; g.mu.Unlock(); g.cond.Broadcast() }
func (g *gate) Wait() {
	g.mu.Lock()
	if g.closed {
		g.stalls++
	}
	for g.closed {
		g.cond.Wait()
	}
	g.mu.Unlock()
}

// installStall wires a gate into disk and hooks. The gate always opens at
// points after which txfile waits for the writer.
func (w *World) installStall() *gate {
	g := newGate()
	w.Disk.BeforeIO = func(kind simdisk.IOKind, idx int) {
		if kind == simdisk.KWrite {
			g.Wait()
		}
	}
	prev := w.Hook
	w.Hook = func(name string, arg int) {
		switch name {
		case "commit/meta-scheduled", "commit/abort-wait", "rollback/wait", "fclose/enter", "inittx/begin":
			g.Open()
		case "writer/batch":
			// executed by the writer go-routine: only touch atomics
			for {
				cur := atomic.LoadInt64(&g.maxBatch)
				if int64(arg) <= cur || atomic.CompareAndSwapInt64(&g.maxBatch, cur, int64(arg)) {
					break
				}
			}
			if arg > 1 {
				atomic.AddInt64(&g.batchesGT1, 1)
			}
		}
		if prev != nil {
			prev(name, arg)
		}
	}
	return g
}

// dupWrites counts pairs of writes to the same page between two syncs.
func dupWrites(ops []simdisk.Op, pageSize int) (dups int) {
	seen := map[int64]int{}
	for _, op := range ops {
		switch op.Kind {
		case simdisk.OpSync:
			for k := range seen {
				delete(seen, k)
			}
		case simdisk.OpWrite:
			if op.Off >= int64(2*pageSize) && len(op.Data) > 0 {
				seen[op.Off]++
				if seen[op.Off] == 2 {
					dups++
				}
			}
		}
	}
	return dups
}

type fileCaseSpec struct {
	mon           Monitors
	bounded       int // 0 unbounded, 1 bounded, 2 either
	gen           func(c *core.Case, p *GenParams)
	churn         func(c *core.Case) bool // insert alloc/free churn transactions
	stall         bool
	postCase      func(c *core.Case, w *World) // extra work after the program
	nontrivialMin int
}

func runFileCase(c *core.Case, spec fileCaseSpec) *core.Result {
	res := &core.Result{}
	r := c.R
	cfg := GenConfig(r, spec.bounded)
	if c.Idx%9 == 4 {
		cfg.SyncMode = 3 // txfile.SyncNone: legal configuration for everything but crash safety
	}
	p := DefaultGen()
	if spec.gen != nil {
		spec.gen(c, &p)
	}
	prog := GenProgram(r, p)
	if spec.churn != nil && spec.churn(c) {
		// alloc/free/re-alloc churn on pages of the running transaction, inserted
		// after the first third of the history (and once on the fresh file)
		cut := len(prog) / 3
		for cut < len(prog) && prog[cut].K != OBegin {
			cut++
		}
		np := append([]Op{}, churnTxs(r)...)
		np = append(np, prog[:cut]...)
		np = append(np, churnTxs(r)...)
		prog = append(np, prog[cut:]...)
		res.Add("churn_cases", 1)
	}
	if p.MaxAllocN > 100 && cfg.MaxPages == 0 {
		// big transactions: give the simulated device enough room
		cfg.DiskCap = 32 << 20
	}
	if c.Tier == "thorough" && cfg.MaxPages == 0 && cfg.DiskCap < 16<<20 {
		// long histories on unbounded files outgrow the small device (an
		// environment limit that only yields inconclusive cases)
		cfg.DiskCap = 16 << 20
	}
	w := NewWorld(cfg, spec.mon, r, res)
	w.TraceOn = c.Verbose
	var g *gate
	stallMode := 0
	if spec.stall {
		stallMode = r.Intn(3)
		g = w.installStall()
	}
	if !w.Open() {
		return finishFileCase(c, w, res, prog, spec)
	}
	for i, op := range prog {
		if g != nil {
			switch stallMode {
			case 1:
				// stall from the first flush on; released at commit/meta-scheduled
				if op.K == OFlushPage || op.K == OFlushTx {
					g.Close()
				}
			case 2:
				if r.Chance(1, 6) {
					g.Close()
				} else if r.Chance(1, 6) {
					g.Open()
				}
			}
			if op.K == OReopen {
				g.Open()
			}
		}
		_ = i
		if !w.Exec(op) {
			break
		}
	}
	if g != nil {
		g.Open()
	}
	if !w.failed && w.Tx != nil {
		w.End(OClose)
	}
	if !w.failed && spec.postCase != nil {
		spec.postCase(c, w)
	}
	if g != nil {
		g.Open()
		g.mu.Lock()
		res.Add("writer_stalls", int64(g.stalls))
		g.mu.Unlock()
		res.Max("writer_batch", atomic.LoadInt64(&g.maxBatch))
		res.Add("writer_batches_gt1", atomic.LoadInt64(&g.batchesGT1))
	}
	return finishFileCase(c, w, res, prog, spec)
}

func finishFileCase(c *core.Case, w *World, res *core.Result, prog []Op, spec fileCaseSpec) *core.Result {
	if w.F != nil && w.Tx != nil {
		// a violation left a transaction open: File.Close would block forever
		w.F = nil
	}
	if w.F != nil {
		// final reopen check: the state must survive a clean close/open
		if !w.failed {
			w.Reopen()
		}
		if w.F != nil {
			f := w.F
			w.guard("File.Close(final)", func() { f.Close() })
			w.F = nil
		}
	}
	if w.failed && w.Disk.AddressSpaceExceeded {
		// environment limit of the harness hit -> not a verdict
		res.Status = core.Inconclusive
		res.Violations = nil
		res.Note = "simulated-address-space-exceeded"
		return res
	}
	res.Key = w.Key()
	min := spec.nontrivialMin
	if min == 0 {
		min = 3
	}
	res.Nontrivial = w.Commits >= min && w.Writes > 0
	res.Add("commits", int64(w.Commits))
	res.Add("aborts", int64(w.Aborts))
	res.Add("reopens", int64(w.Reopens))
	res.Add("page_writes", int64(w.Writes))
	res.Add("allocs", int64(w.Allocs))
	res.Add("frees", int64(w.Frees))
	res.Add("oom_outcomes", int64(w.OOMs))
	res.Add("io_ops", int64(len(w.Disk.Log())))
	res.Add("dup_page_writes_in_one_sync_window", int64(dupWrites(w.Disk.Log(), int(w.Cfg.PageSize))))
	res.Max("live_pages", int64(len(w.Committed.Pages)))
	res.Max("file_extent", w.Disk.MaxExtent)
	res.SetAdd("configs", fmt.Sprintf("ps=%d,max=%d,odd=%v,meta=%d,pre=%v", w.Cfg.PageSize, w.Cfg.MaxPages, w.Cfg.MaxSizeOdd != 0, w.Cfg.InitMetaArea, w.Cfg.Prealloc))
	if c.Idx%97 == 0 || c.Verbose {
		n := len(w.Trace)
		if n > 40 {
			n = 40
		}
		res.Sample = map[string]interface{}{"case": c.Idx, "config": w.Cfg, "ops": len(prog), "trace_head": w.Trace[:n]}
	}
	return res
}

func tierN(tier string, quick, thorough int) int {
	if tier == "thorough" {
		return thorough
	}
	return quick
}

var simdiskAssumptions = []string{
	"simulated disk semantics (DESIGN.md 3.2): page-granular atomic writes, no reordering across a successful sync, mmap coherent with WriteAt",
	"go-txfile built from /repo working tree with build tag verif; hooks are read-only",
	"held on the executions explored only; paths the generated workloads do not drive are not covered",
}

func init() {
	core.Register(&core.Check{
		ID:          "C03",
		Level:       "exploration",
		Rule:        "case = PRNG program (seed,tier,idx) of write transactions (alloc/AllocN, full+partial SetBytes, Load+MarkDirty, page/tx Flush, CheckpointWAL, Free, SetRoot, commit/rollback/close, reopen) over the configuration lattice with a PRNG writer-stall plan; oracle = sequential model compared in a read transaction after every transaction end and on every in-tx read; distinct = hash of executed trace; non-trivial = >=3 commits and >=1 page write",
		Assumptions: simdiskAssumptions,
		NumCases:    func(t string) int { return tierN(t, 1500, 40000) },
		Race:        func(t string, i int) bool { return i%20 == 0 },
		CaseTimeout: func(t string) time.Duration { return 120 * time.Second },
		Run: func(c *core.Case) *core.Result {
			return runFileCase(c, fileCaseSpec{
				mon:     Monitors{Property: "C03", Content: true},
				bounded: 2,
				stall:   true,
				gen: func(c *core.Case, p *GenParams) {
					p.Txs = 8 + c.R.Intn(18)
					if c.Tier == "thorough" && c.Idx%50 == 7 {
						// big transactions exceeding the writer batch buffer
						p.Txs, p.OpsPerTx, p.MaxAllocN = 4, 30, 600
					}
					p.WFlushPage, p.WFlushTx = 10, 6
					p.PCommit = 65
				},
			})
		},
		Finalize: func(a *core.Aggregate) error {
			if a.Stats["commits"] == 0 || a.Stats["page_writes"] == 0 {
				return fmt.Errorf("no commits/page writes observed")
			}
			if a.Stats["dup_page_writes_in_one_sync_window"] == 0 {
				return fmt.Errorf("no sync window with two writes to one page was produced (writer batching not exercised)")
			}
			return nil
		},
	})
}

func init() {
	core.Register(&core.Check{
		ID:          "C04",
		Level:       "exploration",
		Rule:        "case = PRNG history of alloc/AllocN/free/overwrite/flush/commit/rollback/reopen on bounded and unbounded files, with and without initial meta area and overflow area, small meta grow percentage; oracle = harness ownership map checked on every id returned by Alloc/AllocN (>=2, not live, not freed-from-committed in this tx, not allocated twice, not in the meta area, below data end marker and max pages) + partition {headers, live, data-free, meta-free, meta-in-use} pairwise disjoint at every quiescent point + self-identifying page contents re-verified after every transaction; distinct = hash of executed trace; non-trivial = >=3 commits, >=1 write",
		Assumptions: simdiskAssumptions,
		NumCases:    func(t string) int { return tierN(t, 1200, 40000) },
		Race:        func(t string, i int) bool { return i%40 == 0 },
		Run: func(c *core.Case) *core.Result {
			if c.Idx%10 == 9 {
				// shaped files (fragmented free lists, free runs of 254/255/256 pages, large overwrite maps) with reopens
				return runShapeCaseFor(c, Monitors{Property: "C04", Ownership: true, Partition: true, Coverage: true, Content: true}, false)
			}
			return runFileCase(c, fileCaseSpec{
				mon:     Monitors{Property: "C04", Ownership: true, Partition: true, Coverage: true, Content: true},
				bounded: 2,
				churn:   func(c *core.Case) bool { return c.Idx%10 == 3 },
				gen: func(c *core.Case, p *GenParams) {
					p.Txs = 15 + c.R.Intn(45)
					if c.Tier == "thorough" {
						p.Txs = 30 + c.R.Intn(270)
					}
					p.WAlloc, p.WFree, p.WWrite, p.WRead = 35, 30, 30, 3
					p.PCommit, p.PReopen, p.Overflow = 60, 5, 15
					p.MaxAllocN = 12
				},
			})
		},
		Finalize: func(a *core.Aggregate) error {
			if a.Stats["allocs"] == 0 || a.Stats["frees"] == 0 || a.Stats["aborts"] == 0 {
				return fmt.Errorf("allocs/frees/aborts not observed")
			}
			return nil
		},
	})

	core.Register(&core.Check{
		ID:          "C07",
		Level:       "exploration",
		Rule:        "case = PRNG prefix history + aborted transaction bodies (allocations from free list and end of file, frees of old and of just-allocated pages, overwrites growing the meta area, Flush before abort, overflow area, failing commits on full bounded files) + suffix; oracle = snapshot of allocator/WAL/header state before Begin must equal the snapshot after Rollback/Close/failed Commit (page sets of both free lists, end markers, meta total, meta pages, overwrite mapping, header txid), readable state == model, partition sane, clean reopen gives the same state; distinct = hash of executed trace; non-trivial = >=3 commits and >=1 abort",
		Assumptions: simdiskAssumptions,
		NumCases:    func(t string) int { return tierN(t, 1500, 50000) },
		Run: func(c *core.Case) *core.Result {
			if c.Idx%3 == 2 {
				// twin run: H;abort(T);K against H;K
				res := &core.Result{}
				cfg := GenConfig(c.R, 2)
				with, without := genTwinAbort(c.R)
				twinCompare(c, cfg, Monitors{Property: "C07", Content: true}, with, without, 2, res, "history with an aborted transaction vs the same history without it")
				res.Key = fmt.Sprintf("twin-%d", c.Idx)
				res.Nontrivial = res.Stats["twin_observations_compared"] > 5
				res.Add("aborts", 1)
				return res
			}
			return runFileCase(c, fileCaseSpec{
				mon:     Monitors{Property: "C07", AbortID: true, Content: true, Partition: true, Coverage: true, ReopenID: true},
				bounded: 2,
				gen: func(c *core.Case, p *GenParams) {
					p.Txs = 10 + c.R.Intn(30)
					p.WAlloc, p.WFree, p.WWrite, p.WFlushPage, p.WFlushTx = 35, 25, 35, 8, 6
					p.PCommit, p.PReopen, p.Overflow = 45, 8, 25
					p.MaxAllocN = 10
				},
				churn: func(c *core.Case) bool { return c.Idx%6 == 1 },
			})
		},
		Finalize: func(a *core.Aggregate) error {
			if a.Stats["aborts"] == 0 {
				return fmt.Errorf("no aborted transaction observed")
			}
			return nil
		},
	})

	core.Register(&core.Check{
		ID:          "C10",
		Level:       "exploration",
		Rule:        "case = PRNG history with a close/reopen after ~40% of the transactions (plus shape generators, see C10 shapes); oracle = normalised hook snapshot before Close == after Open (free list page sets, end markers, meta total, overwrite mapping, meta bookkeeping pages), model differential after reopen; distinct = hash of executed trace; non-trivial = >=3 commits and >=1 reopen",
		Assumptions: simdiskAssumptions,
		NumCases:    func(t string) int { return tierN(t, 1000, 30000) },
		Run: func(c *core.Case) *core.Result {
			switch c.Idx % 4 {
			case 2:
				// twin run: the same program with and without interposed close/reopen
				res := &core.Result{}
				cfg := GenConfig(c.R, 2)
				with, without := genTwinReopen(c.R)
				twinCompare(c, cfg, Monitors{Property: "C10", Content: true}, with, without, 0, res, "program with interposed close/reopen vs never closed instance")
				res.Key = fmt.Sprintf("twin-%d", c.Idx)
				res.Nontrivial = res.Stats["twin_observations_compared"] > 5
				res.Add("reopens", 1)
				return res
			case 3:
				return runShapeCase(c)
			}
			return runFileCase(c, fileCaseSpec{
				mon:     Monitors{Property: "C10", ReopenID: true, Content: true, Partition: true, Coverage: true},
				bounded: 2,
				gen: func(c *core.Case, p *GenParams) {
					p.Txs = 10 + c.R.Intn(30)
					p.PReopen = 40
					p.WFree = 25
					p.PCommit = 80
				},
			})
		},
		Finalize: func(a *core.Aggregate) error {
			if a.Stats["reopens"] == 0 {
				return fmt.Errorf("no reopen observed")
			}
			return nil
		},
	})

	core.Register(&core.Check{
		ID:          "C11",
		Level:       "exploration",
		Rule:        "case = PRNG long history of small transactions on a bounded file that never enables the overflow area; oracle at every quiescent point: capacity probe (AllocN until failure in a rolled-back transaction) + live pages + meta area + 2 == max pages; FileStats (DataAllocated, MetaArea, MetaAllocated) from the Observer equal harness truth / hook snapshot; partition covers every page below the end marker (no leak); file extent on the simulated disk <= max size; distinct = hash of executed trace; non-trivial = >=3 commits",
		Assumptions: simdiskAssumptions,
		NumCases:    func(t string) int { return tierN(t, 400, 8000) },
		Run: func(c *core.Case) *core.Result {
			return runFileCase(c, fileCaseSpec{
				mon:     Monitors{Property: "C11", Conserve: true, Partition: true},
				bounded: 1,
				gen: func(c *core.Case, p *GenParams) {
					p.Txs = 60 + c.R.Intn(200)
					if c.Tier == "thorough" {
						p.Txs = 200 + c.R.Intn(2000)
					}
					p.OpsPerTx = 6
					p.WAlloc, p.WFree, p.WWrite, p.WRead = 35, 30, 25, 0
					p.PCommit, p.PReopen, p.Overflow = 70, 3, 0
					p.MaxAllocN = 8
				},
			})
		},
		Finalize: func(a *core.Aggregate) error {
			if a.Stats["conservation_checks"] == 0 {
				return fmt.Errorf("conservation equation never evaluated")
			}
			return nil
		},
	})
}
