//go:build race

package core

func init() { IsRaceBuild = true }
