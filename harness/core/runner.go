package core

import (
	"bufio"
	"encoding/json"
	"fmt"
	"io"
	"os"
	"os/exec"
	"path/filepath"
	"regexp"
	"runtime"
	"runtime/debug"
	"sort"
	"strconv"
	"strings"
	"sync"
	"syscall"
	"time"
)

// Status of one explored case (three valued).
const (
	Held         = "held"
	Violated     = "violated"
	Inconclusive = "inconclusive"
)

// Violation describes a refuted property with its witness.
type Violation struct {
	Property  string      `json:"property"`
	Rule      string      `json:"rule"`      // oracle rule that fired
	Signature string      `json:"signature"` // stable id used for known-findings matching
	Message   string      `json:"message"`
	Witness   interface{} `json:"witness,omitempty"`
	// EnvLimit marks a report raised after the case ran into a limit of the
	// harness environment (capacity of the simulated device / address space):
	// nothing can be concluded from it, the case counts as inconclusive.
	EnvLimit bool `json:"env_limit,omitempty"`
}

// MarkEnvLimit flags the most recent violation as raised behind an environment limit.
func (r *Result) MarkEnvLimit() {
	if n := len(r.Violations); n > 0 {
		r.Violations[n-1].EnvLimit = true
	}
}

// Result is what a case reports back.
type Result struct {
	Idx        int                 `json:"idx"`
	Status     string              `json:"status"`
	Nontrivial bool                `json:"nontrivial"`
	Key        string              `json:"key"` // distinctness key
	Sample     interface{}         `json:"sample,omitempty"`
	Violations []*Violation        `json:"violations,omitempty"`
	Stats      map[string]int64    `json:"stats,omitempty"` // summed
	Maxes      map[string]int64    `json:"maxes,omitempty"` // maxed
	Sets       map[string][]string `json:"sets,omitempty"`  // union-ed, distinct count reported
	Note       string              `json:"note,omitempty"`
	WallMS     int64               `json:"wall_ms"`
}

func (r *Result) Add(k string, n int64) {
	if r.Stats == nil {
		r.Stats = map[string]int64{}
	}
	r.Stats[k] += n
}

func (r *Result) Max(k string, n int64) {
	if r.Maxes == nil {
		r.Maxes = map[string]int64{}
	}
	if n > r.Maxes[k] {
		r.Maxes[k] = n
	}
}

func (r *Result) SetAdd(k, v string) {
	if r.Sets == nil {
		r.Sets = map[string][]string{}
	}
	for _, x := range r.Sets[k] {
		if x == v {
			return
		}
	}
	if len(r.Sets[k]) < 4096 {
		r.Sets[k] = append(r.Sets[k], v)
	}
}

// Violate records a violation.
func (r *Result) Violate(prop, rule, sig, msg string, witness interface{}) {
	r.Status = Violated
	r.Violations = append(r.Violations, &Violation{Property: prop, Rule: rule, Signature: sig, Message: msg, Witness: witness})
}

// Case is the input of one case execution.
type Case struct {
	Seed    int64
	Tier    string
	Idx     int
	R       *Rand
	Verbose bool
	Race    bool // running in a race-detector build
}

func (c *Case) Logf(format string, args ...interface{}) {
	if c.Verbose {
		fmt.Fprintf(os.Stderr, format+"\n", args...)
	}
}

// Check is one registered property check.
type Check struct {
	ID          string
	Level       string
	Rule        string
	Assumptions []string
	Exhaustive  bool
	NumCases    func(tier string) int
	Run         func(c *Case) *Result
	Race        func(tier string, idx int) bool
	CaseTimeout func(tier string) time.Duration
	// Finalize inspects the aggregate and returns an error if the monitors
	// did not observe what they must observe for the run to mean anything.
	Finalize func(a *Aggregate) error
	// Extra is merged into coverage.
	Extra func(a *Aggregate) map[string]interface{}
}

var registry = map[string]*Check{}

// Register adds a check.
func Register(c *Check) { registry[c.ID] = c }

// Lookup finds a check.
func Lookup(id string) *Check { return registry[id] }

// IDs lists registered checks.
func IDs() []string {
	var ids []string
	for id := range registry {
		ids = append(ids, id)
	}
	sort.Strings(ids)
	return ids
}

// Root returns the verification root directory.
func Root() string {
	if r := os.Getenv("VERIF_ROOT"); r != "" {
		return r
	}
	return "/verif"
}

// IsRaceBuild is set by race.go / norace.go.
var IsRaceBuild bool

// RunCase executes one case in-process, converting panics into violations.
func RunCase(chk *Check, seed int64, tier string, idx int, verbose bool) (res *Result) {
	start := time.Now()
	c := &Case{Seed: seed, Tier: tier, Idx: idx, R: NewRand(seed, chk.ID+"/"+tier, idx), Verbose: verbose, Race: IsRaceBuild}
	defer func() {
		if p := recover(); p != nil {
			stack := string(debug.Stack())
			res = &Result{Idx: idx, Status: Violated, Nontrivial: true, Key: fmt.Sprintf("panic-%d", idx)}
			res.Violate(chk.ID, "harness-escaped-panic", "panic:"+PanicSig(p, stack), fmt.Sprintf("panic: %v", p), map[string]interface{}{"stack": TrimStack(stack)})
		}
		res.Idx = idx
		res.WallMS = time.Since(start).Milliseconds()
		// reports raised behind an environment limit are not verdicts
		if len(res.Violations) > 0 {
			keep := res.Violations[:0]
			dropped := 0
			for _, v := range res.Violations {
				if v.EnvLimit {
					dropped++
					continue
				}
				keep = append(keep, v)
			}
			res.Violations = keep
			if dropped > 0 && len(keep) == 0 {
				res.Status, res.Note = Inconclusive, "simulated-device-limit"
			}
		}
		if res.Status == "" {
			res.Status = Held
		}
	}()
	return chk.Run(c)
}

var frameRe = regexp.MustCompile(`github\.com/elastic/go-txfile[^\s(]*`)

// PanicSig derives a stable signature from a panic value and its stack: the
// panic text (numbers normalised) plus the first go-txfile frames.
func PanicSig(p interface{}, stack string) string {
	msg := fmt.Sprint(p)
	msg = regexp.MustCompile(`0x[0-9a-f]+`).ReplaceAllString(msg, "0x?")
	msg = regexp.MustCompile(`[0-9]+`).ReplaceAllString(msg, "N")
	if len(msg) > 120 {
		msg = msg[:120]
	}
	frames := frameRe.FindAllString(stack, -1)
	var fs []string
	for _, f := range frames {
		f = strings.TrimPrefix(f, "github.com/elastic/go-txfile")
		f = strings.TrimPrefix(f, ".")
		f = strings.TrimPrefix(f, "/")
		if strings.HasSuffix(f, ".go") || strings.Contains(f, ".go:") {
			continue
		}
		if len(fs) > 0 && fs[len(fs)-1] == f {
			continue
		}
		fs = append(fs, f)
		if len(fs) == 3 {
			break
		}
	}
	return msg + "@" + strings.Join(fs, "<")
}

// TrimStack shortens a stack trace for reports.
func TrimStack(s string) string {
	lines := strings.Split(s, "\n")
	if len(lines) > 60 {
		lines = lines[:60]
	}
	return strings.Join(lines, "\n")
}

// WorkerMain is the entry point of a worker process.
func WorkerMain(chk *Check, tier string, seed int64) {
	in := bufio.NewScanner(os.Stdin)
	out := bufio.NewWriter(os.Stdout)
	for in.Scan() {
		line := strings.TrimSpace(in.Text())
		if line == "" {
			continue
		}
		idx, err := strconv.Atoi(line)
		if err != nil {
			fmt.Fprintf(os.Stderr, "bad index %q\n", line)
			os.Exit(3)
		}
		res := RunCase(chk, seed, tier, idx, false)
		b, err := json.Marshal(res)
		if err != nil {
			fmt.Fprintf(os.Stderr, "marshal result: %v\n", err)
			os.Exit(3)
		}
		out.WriteString("RESULT ")
		out.Write(b)
		out.WriteString("\n")
		out.Flush()
	}
}

type worker struct {
	cmd     *exec.Cmd
	stdin   io.WriteCloser
	stdout  *bufio.Reader
	errPath string
	race    bool
	id      int
}

// Aggregate collects results over all cases.
type Aggregate struct {
	Check        *Check
	Tier         string
	Seed         int64
	Evaluations  int
	Keys         map[string]bool
	Samples      []interface{}
	Stats        map[string]int64
	Maxes        map[string]int64
	Sets         map[string]map[string]bool
	Inconclusive int
	Violations   []*Violation
	Known        []string
	RaceCases    int
	fallback     []interface{}
	mu           sync.Mutex
}

func (a *Aggregate) add(r *Result, race bool) {
	a.mu.Lock()
	defer a.mu.Unlock()
	a.Evaluations++
	if race {
		a.RaceCases++
	}
	if r.Nontrivial && r.Key != "" {
		a.Keys[r.Key] = true
	}
	if r.Sample != nil && r.Nontrivial && len(a.Samples) < 3 {
		a.Samples = append(a.Samples, r.Sample)
	}
	if r.Nontrivial && len(a.fallback) < 3 {
		// compact description of an explored case, used if no case supplied a richer sample
		a.fallback = append(a.fallback, map[string]interface{}{"case": r.Idx, "trace_key": r.Key, "status": r.Status, "observed": r.Stats})
	}
	for k, v := range r.Stats {
		a.Stats[k] += v
	}
	for k, v := range r.Maxes {
		if v > a.Maxes[k] {
			a.Maxes[k] = v
		}
	}
	for k, vs := range r.Sets {
		if a.Sets[k] == nil {
			a.Sets[k] = map[string]bool{}
		}
		for _, v := range vs {
			a.Sets[k][v] = true
		}
	}
	if r.Status == Inconclusive {
		a.Inconclusive++
		a.Stats["inconclusive:"+r.Note]++
	}
}

func exePath(race bool) string {
	self, _ := os.Executable()
	dir := filepath.Dir(self)
	if race {
		return filepath.Join(dir, "verifrun.race")
	}
	return filepath.Join(dir, "verifrun")
}

func startWorker(chk *Check, tier string, seed int64, race bool, id int, logDir string) (*worker, error) {
	cmd := exec.Command(exePath(race), "worker", chk.ID, tier, strconv.FormatInt(seed, 10))
	errPath := filepath.Join(logDir, fmt.Sprintf("worker-%s-%d-%v.stderr", chk.ID, id, race))
	ef, err := os.Create(errPath)
	if err != nil {
		return nil, err
	}
	cmd.Stderr = ef
	cmd.Env = append(os.Environ(), "GORACE=halt_on_error=1 history_size=3", "GOTRACEBACK=all")
	stdin, err := cmd.StdinPipe()
	if err != nil {
		return nil, err
	}
	stdout, err := cmd.StdoutPipe()
	if err != nil {
		return nil, err
	}
	if err := cmd.Start(); err != nil {
		return nil, err
	}
	ef.Close()
	return &worker{cmd: cmd, stdin: stdin, stdout: bufio.NewReaderSize(stdout, 1<<20), errPath: errPath, race: race, id: id}, nil
}

func (w *worker) stop() {
	w.stdin.Close()
	done := make(chan struct{})
	go func() { w.cmd.Wait(); close(done) }()
	select {
	case <-done:
	case <-time.After(5 * time.Second):
		w.cmd.Process.Kill()
		<-done
	}
}

// runOne sends one case to the worker. If the worker dies or times out, a
// synthetic result is produced and the worker must be replaced (ok=false).
func (w *worker) runOne(chk *Check, idx int, timeout time.Duration) (res *Result, ok bool) {
	// truncate stderr log so that the content belongs to this case
	os.Truncate(w.errPath, 0)
	if _, err := fmt.Fprintf(w.stdin, "%d\n", idx); err != nil {
		return w.dead(chk, idx, "write to worker failed: "+err.Error()), false
	}
	type rd struct {
		line string
		err  error
	}
	ch := make(chan rd, 1)
	go func() {
		for {
			line, err := w.stdout.ReadString('\n')
			if err != nil {
				ch <- rd{"", err}
				return
			}
			if strings.HasPrefix(line, "RESULT ") {
				ch <- rd{line[len("RESULT "):], nil}
				return
			}
		}
	}()
	select {
	case r := <-ch:
		if r.err != nil {
			w.cmd.Wait()
			return w.dead(chk, idx, "worker exited"), false
		}
		res = &Result{}
		if err := json.Unmarshal([]byte(r.line), res); err != nil {
			return w.dead(chk, idx, "bad result: "+err.Error()), false
		}
		return res, true
	case <-time.After(timeout):
		// watchdog: inconclusive, never a violation
		w.cmd.Process.Signal(syscall.SIGQUIT)
		time.Sleep(500 * time.Millisecond)
		w.cmd.Process.Kill()
		w.cmd.Wait()
		dump := filepath.Join(filepath.Dir(w.errPath), fmt.Sprintf("timeout-%s-%d.dump", chk.ID, idx))
		os.Rename(w.errPath, dump)
		return &Result{Idx: idx, Status: Inconclusive, Note: "watchdog-timeout", Key: ""}, false
	}
}

var raceFrameRe = regexp.MustCompile(`(?m)^\s+((?:github\.com/elastic/go-txfile|verif/)[^\n]*?)\([^()\n]*\)\s*$`)

// dead converts a worker death into a violation (race report, fatal error, unrecovered panic).
func (w *worker) dead(chk *Check, idx int, why string) *Result {
	b, _ := os.ReadFile(w.errPath)
	text := string(b)
	res := &Result{Idx: idx, Status: Violated, Nontrivial: true, Key: fmt.Sprintf("dead-%d", idx)}
	rule := "process-fatal"
	sig := ""
	switch {
	case strings.Contains(text, "WARNING: DATA RACE"):
		rule = "data-race"
		sig = "race:" + raceSig(text)
	case strings.Contains(text, "fatal error:"):
		i := strings.Index(text, "fatal error:")
		line := text[i:]
		if j := strings.IndexByte(line, '\n'); j > 0 {
			line = line[:j]
		}
		sig = "fatal:" + line + "@" + PanicSig("", text)
	case strings.Contains(text, "panic:"):
		i := strings.Index(text, "panic:")
		line := text[i:]
		if j := strings.IndexByte(line, '\n'); j > 0 {
			line = line[:j]
		}
		rule = "unrecovered-panic"
		sig = "panic:" + PanicSig(strings.TrimPrefix(line, "panic: "), text)
	default:
		sig = "dead:" + why
	}
	if len(text) > 12000 {
		text = text[:12000]
	}
	res.Violate(chk.ID, rule, sig, why, map[string]interface{}{"stderr": text})
	return res
}

// raceSig deduplicates race reports: function names (no line numbers) of the
// first go-txfile/harness frame of each of the two stacks.
func raceSig(text string) string {
	i := strings.Index(text, "WARNING: DATA RACE")
	text = text[i:]
	if j := strings.Index(text, "=================="); j > 0 {
		text = text[:j]
	}
	blocks := strings.Split(text, "\n\n")
	var tops []string
	for _, b := range blocks {
		if !(strings.Contains(b, "by goroutine") || strings.Contains(b, "by main goroutine")) {
			continue
		}
		if strings.Contains(b, "created at") {
			continue
		}
		m := raceFrameRe.FindAllStringSubmatch(b, -1)
		var fs []string
		for _, x := range m {
			f := strings.TrimPrefix(x[1], "github.com/elastic/go-txfile")
			fs = append(fs, strings.TrimLeft(f, "./"))
			if len(fs) == 2 {
				break
			}
		}
		tops = append(tops, strings.Join(fs, "<"))
		if len(tops) == 2 {
			break
		}
	}
	sort.Strings(tops)
	return strings.Join(tops, " || ")
}

// ParentMain runs all cases of a check and writes the evidence. Returns the exit code.
func ParentMain(chk *Check, tier string, seed int64) int {
	start := time.Now()
	n := chk.NumCases(tier)
	agg := &Aggregate{Check: chk, Tier: tier, Seed: seed, Keys: map[string]bool{}, Stats: map[string]int64{}, Maxes: map[string]int64{}, Sets: map[string]map[string]bool{}}
	logDir := filepath.Join(Root(), "work", "logs")
	os.MkdirAll(logDir, 0o755)

	timeout := 180 * time.Second
	if chk.CaseTimeout != nil {
		timeout = chk.CaseTimeout(tier)
	}

	var plain, raced []int
	for i := 0; i < n; i++ {
		if chk.Race != nil && chk.Race(tier, i) {
			raced = append(raced, i)
		} else {
			plain = append(plain, i)
		}
	}

	nw := runtime.NumCPU()
	if s := os.Getenv("VERIF_WORKERS"); s != "" {
		if v, err := strconv.Atoi(s); err == nil && v > 0 {
			nw = v
		}
	}

	findings := LoadFindings()
	var vmu sync.Mutex
	var unlisted []*Violation
	knownPrinted := map[string]bool{}
	stop := make(chan struct{})
	var stopOnce sync.Once

	handle := func(res *Result, race bool) {
		agg.add(res, race)
		for _, v := range res.Violations {
			vmu.Lock()
			if f := findings.Match(v); f != nil {
				if !knownPrinted[f.Signature] {
					knownPrinted[f.Signature] = true
					fmt.Printf("KNOWN-FINDING: property=%s %s\n", v.Property, f.Description)
					agg.Known = append(agg.Known, f.Signature)
				}
				vmu.Unlock()
				continue
			}
			path := writeReplay(chk, tier, seed, res.Idx, v)
			fmt.Printf("VIOLATION property=%s replay=%s\n", v.Property, path)
			fmt.Printf("  rule=%s signature=%q\n  %s\n", v.Rule, v.Signature, firstLines(v.Message, 6))
			unlisted = append(unlisted, v)
			agg.Violations = append(agg.Violations, v)
			if len(unlisted) >= 5 {
				stopOnce.Do(func() { close(stop) })
			}
			vmu.Unlock()
		}
	}

	runPool := func(cases []int, race bool) {
		if len(cases) == 0 {
			return
		}
		jobs := make(chan int)
		var wg sync.WaitGroup
		k := nw
		if k > len(cases) {
			k = len(cases)
		}
		for wi := 0; wi < k; wi++ {
			wg.Add(1)
			go func(wi int) {
				defer wg.Done()
				var w *worker
				defer func() {
					if w != nil {
						w.stop()
					}
				}()
				for idx := range jobs {
					if w == nil {
						var err error
						w, err = startWorker(chk, tier, seed, race, wi, logDir)
						if err != nil {
							fmt.Fprintf(os.Stderr, "cannot start worker: %v\n", err)
							os.Exit(3)
						}
					}
					res, ok := w.runOne(chk, idx, timeout)
					if !ok {
						w.cmd.Process.Kill()
						w = nil
					}
					handle(res, race)
				}
			}(wi)
		}
	feed:
		for _, idx := range cases {
			select {
			case jobs <- idx:
			case <-stop:
				break feed
			}
		}
		close(jobs)
		wg.Wait()
	}

	runPool(plain, false)
	runPool(raced, true)

	wall := time.Since(start).Seconds()
	var finErr error
	if chk.Finalize != nil && len(unlisted) == 0 {
		finErr = chk.Finalize(agg)
	}
	if err := WriteEvidence(agg, wall, len(unlisted)); err != nil {
		fmt.Fprintf(os.Stderr, "cannot write evidence: %v\n", err)
		return 3
	}
	fmt.Printf("%s %s seed=%d: cases=%d distinct_nontrivial=%d inconclusive=%d race_cases=%d violations=%d known=%d wall=%.1fs\n",
		chk.ID, tier, seed, agg.Evaluations, len(agg.Keys), agg.Inconclusive, agg.RaceCases, len(unlisted), len(agg.Known), wall)
	printStats(agg)
	if len(unlisted) > 0 {
		return 1
	}
	if finErr != nil {
		fmt.Printf("BROKEN-CHECK %s: %v\n", chk.ID, finErr)
		return 2
	}
	return 0
}

func printStats(a *Aggregate) {
	var ks []string
	for k := range a.Stats {
		ks = append(ks, k)
	}
	sort.Strings(ks)
	var parts []string
	for _, k := range ks {
		parts = append(parts, fmt.Sprintf("%s=%d", k, a.Stats[k]))
	}
	ks = ks[:0]
	for k := range a.Maxes {
		ks = append(ks, k)
	}
	sort.Strings(ks)
	for _, k := range ks {
		parts = append(parts, fmt.Sprintf("max_%s=%d", k, a.Maxes[k]))
	}
	ks = ks[:0]
	for k := range a.Sets {
		ks = append(ks, k)
	}
	sort.Strings(ks)
	for _, k := range ks {
		parts = append(parts, fmt.Sprintf("distinct_%s=%d", k, len(a.Sets[k])))
	}
	fmt.Printf("  observed: %s\n", strings.Join(parts, " "))
}

func firstLines(s string, n int) string {
	lines := strings.Split(s, "\n")
	if len(lines) > n {
		lines = lines[:n]
	}
	return strings.Join(lines, "\n  ")
}

// Replay is the content of a replay file.
type Replay struct {
	Property  string     `json:"property"`
	Tier      string     `json:"tier"`
	Seed      int64      `json:"seed"`
	Idx       int        `json:"idx"`
	Violation *Violation `json:"violation"`
	Cmd       string     `json:"cmd"`
}

func writeReplay(chk *Check, tier string, seed int64, idx int, v *Violation) string {
	dir := filepath.Join(Root(), "replays", chk.ID)
	os.MkdirAll(dir, 0o755)
	name := fmt.Sprintf("%s-%s-seed%d-case%d-%x.json", chk.ID, tier, seed, idx, Hash64([]byte(v.Signature))&0xffffff)
	path := filepath.Join(dir, name)
	rp := Replay{Property: chk.ID, Tier: tier, Seed: seed, Idx: idx, Violation: v,
		Cmd: fmt.Sprintf("./check replay %s", path)}
	b, _ := json.MarshalIndent(rp, "", " ")
	os.WriteFile(path, b, 0o644)
	return path
}

// ReplayMain re-executes the case recorded in a replay file, verbosely.
func ReplayMain(path string) int {
	b, err := os.ReadFile(path)
	if err != nil {
		fmt.Fprintln(os.Stderr, err)
		return 3
	}
	var rp Replay
	if err := json.Unmarshal(b, &rp); err != nil {
		fmt.Fprintln(os.Stderr, err)
		return 3
	}
	chk := Lookup(rp.Property)
	if chk == nil {
		fmt.Fprintln(os.Stderr, "unknown property", rp.Property)
		return 3
	}
	res := RunCase(chk, rp.Seed, rp.Tier, rp.Idx, true)
	out, _ := json.MarshalIndent(res, "", " ")
	fmt.Println(string(out))
	if res.Status == Violated {
		for _, v := range res.Violations {
			fmt.Printf("VIOLATION property=%s replay=%s\n", v.Property, path)
		}
		return 1
	}
	return 0
}
