package core

import (
	"hash/fnv"
	"math/rand"
)

// Rand is a deterministic PRNG. The stream is a pure function of
// (seed, label, index).
type Rand struct {
	*rand.Rand
}

type splitmix struct{ s uint64 }

func (s *splitmix) next() uint64 {
	s.s += 0x9E3779B97F4A7C15
	z := s.s
	z = (z ^ (z >> 30)) * 0xBF58476D1CE4E5B9
	z = (z ^ (z >> 27)) * 0x94D049BB133111EB
	return z ^ (z >> 31)
}

func (s *splitmix) Int63() int64    { return int64(s.next() >> 1) }
func (s *splitmix) Uint64() uint64  { return s.next() }
func (s *splitmix) Seed(seed int64) { s.s = uint64(seed) }

// NewRand derives a PRNG from seed, label and index.
func NewRand(seed int64, label string, idx int) *Rand {
	h := fnv.New64a()
	h.Write([]byte(label))
	v := h.Sum64()
	sm := &splitmix{s: uint64(seed)*0x9E3779B97F4A7C15 ^ v ^ (uint64(idx)+1)*0xD1B54A32D192ED03}
	sm.next()
	return &Rand{rand.New(sm)}
}

// Sub derives an independent stream.
func (r *Rand) Sub(label string, idx int) *Rand {
	return NewRand(r.Int63(), label, idx)
}

// Pick returns a random element index weighted by w.
func (r *Rand) Pick(w []int) int {
	tot := 0
	for _, x := range w {
		tot += x
	}
	if tot <= 0 {
		return 0
	}
	n := r.Intn(tot)
	for i, x := range w {
		if n < x {
			return i
		}
		n -= x
	}
	return len(w) - 1
}

// Chance returns true with probability num/den.
func (r *Rand) Chance(num, den int) bool { return r.Intn(den) < num }

// Hash64 hashes a byte string.
func Hash64(b []byte) uint64 {
	h := fnv.New64a()
	h.Write(b)
	return h.Sum64()
}
