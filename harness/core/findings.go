package core

import (
	"encoding/json"
	"os"
	"path/filepath"
	"strings"
)

// Finding is one entry of /verif/known_findings.json. The file is committed
// and never written at run time. Entries with status "fixed" suppress nothing.
type Finding struct {
	Property    string `json:"property"`
	Status      string `json:"status"` // known | fixed
	Signature   string `json:"signature"`
	Commit      string `json:"commit,omitempty"`
	Description string `json:"description"`
	Line        string `json:"line,omitempty"`
}

type Findings struct {
	Findings []Finding `json:"findings"`
}

// LoadFindings reads the known findings file (missing file = no findings).
func LoadFindings() *Findings {
	f := &Findings{}
	b, err := os.ReadFile(filepath.Join(Root(), "known_findings.json"))
	if err != nil {
		return f
	}
	json.Unmarshal(b, f)
	return f
}

// Match returns the known (unfixed) finding matching the violation, if any.
func (f *Findings) Match(v *Violation) *Finding {
	for i := range f.Findings {
		e := &f.Findings[i]
		if e.Status != "known" || e.Property != v.Property {
			continue
		}
		if e.Signature == v.Signature || (strings.HasSuffix(e.Signature, "*") && strings.HasPrefix(v.Signature, strings.TrimSuffix(e.Signature, "*"))) {
			return e
		}
	}
	return nil
}
