package core

import (
	"encoding/json"
	"os"
	"path/filepath"
	"sort"
)

// WriteEvidence writes /verif/evidence/<id>.json for the run.
func WriteEvidence(a *Aggregate, wall float64, violations int) error {
	chk := a.Check
	if len(a.Samples) == 0 {
		a.Samples = a.fallback
	}
	cov := map[string]interface{}{
		"evaluations":         a.Evaluations,
		"distinct_nontrivial": len(a.Keys),
		"rule":                chk.Rule,
		"samples":             a.Samples,
		"inconclusive":        a.Inconclusive,
		"race_detector_cases": a.RaceCases,
		"known_findings_hit":  a.Known,
	}
	if len(a.Samples) == 0 {
		cov["samples"] = []interface{}{}
	}
	if chk.Exhaustive {
		cov["exhaustive"] = true
	}
	obs := map[string]interface{}{}
	for k, v := range a.Stats {
		obs[k] = v
	}
	for k, v := range a.Maxes {
		obs["max_"+k] = v
	}
	for k, v := range a.Sets {
		obs["distinct_"+k] = len(v)
		if len(v) <= 40 {
			var l []string
			for s := range v {
				l = append(l, s)
			}
			sort.Strings(l)
			obs["values_"+k] = l
		}
	}
	cov["observed"] = obs
	if chk.Extra != nil {
		for k, v := range chk.Extra(a) {
			cov[k] = v
		}
	}
	ev := map[string]interface{}{
		"property_id": chk.ID,
		"tier":        a.Tier,
		"seed":        a.Seed,
		"level":       chk.Level,
		"coverage":    cov,
		"assumptions": chk.Assumptions,
		"wall_s":      wall,
		"violations":  violations,
	}
	b, err := json.MarshalIndent(ev, "", " ")
	if err != nil {
		return err
	}
	dir := filepath.Join(Root(), "evidence")
	if d := os.Getenv("VERIF_EVIDENCE_DIR"); d != "" {
		// development runs against another checkout must not overwrite the evidence of /repo
		dir = d
	}
	if err := os.MkdirAll(dir, 0o755); err != nil {
		return err
	}
	return os.WriteFile(filepath.Join(dir, chk.ID+".json"), append(b, '\n'), 0o644)
}
