package pqcheck

import (
	"bytes"
	"fmt"

	"github.com/elastic/go-txfile/pq"

	"verif/core"
	"verif/filecheck"
)

// Cooperative scheduler for the queue (part of C13): one producer actor and
// one consumer actor are stepped one at a time at their own step boundaries
// and at the lock-adjacent hook points of the flush / ACK transactions; all
// schedules with a bounded number of preemptions are enumerated (see
// filecheck/sched.go).

type pqSchedState struct {
	q        *pq.Queue
	events   [][]byte
	produced int
	consumed int
	acked    int
}

func pqSchedSet(r *core.Rand, ps int) filecheck.CustomSet {
	payload := ps - szEventPageHeader
	// events around page boundaries
	sizes := []int{payload - szEventHeader, 3, payload - 2*szEventHeader - 3, 2*payload + 17, 1, payload - szEventHeader - 1, 40, payload}
	n := 4 + r.Intn(4)
	var evs [][]byte
	for i := 0; i < n; i++ {
		sz := sizes[r.Intn(len(sizes))]
		b := make([]byte, sz)
		for j := range b {
			b[j] = byte(i*31 + j*7 + 1)
		}
		evs = append(evs, b)
	}
	flushEvery := 1 + r.Intn(3)
	ackBatch := 1 + r.Intn(3)
	cfg := filecheck.Config{PageSize: uint32(ps), DiskCap: 1 << 20}
	if r.Chance(1, 2) {
		cfg.MaxPages = 64 * 1024 / ps
	}
	st := func(sr *filecheck.SchedRun) *pqSchedState { return sr.User.(*pqSchedState) }

	readSome := func(sr *filecheck.SchedRun, a *filecheck.SchedActor, rd *pq.Reader, s *pqSchedState, yield bool) bool {
		if err := rd.Begin(); err != nil {
			sr.Fail("consumer-error", "Reader.Begin failed: %v", err)
			return false
		}
		defer rd.Done()
		for {
			n, err := rd.Next()
			if err != nil {
				sr.Fail("consumer-error", "Reader.Next failed at event %d: %+v", s.consumed, err)
				return false
			}
			if n == 0 {
				return true
			}
			if s.consumed >= len(s.events) {
				sr.Fail("fifo-phantom", "reader delivers event %d of %d bytes, only %d events exist", s.consumed, n, len(s.events))
				return false
			}
			want := s.events[s.consumed]
			buf := make([]byte, n)
			k, err := rd.Read(buf)
			if err != nil || k != n {
				sr.Fail("consumer-error", "Reader.Read of event %d returned %d of %d bytes: %v", s.consumed, k, n, err)
				return false
			}
			if !bytes.Equal(buf, want) {
				sr.Fail("fifo-bytes", "consumer expects event %d (%d bytes), got %d different bytes", s.consumed, len(want), n)
				return false
			}
			s.consumed++
			if yield {
				sr.Yield(a, "c/read") // read transaction stays open across this point
			}
		}
	}

	return filecheck.CustomSet{
		Name: fmt.Sprintf("producer(%d events, flush every %d)+consumer(ack %d)", n, flushEvery, ackBatch),
		Cfg:  cfg,
		Setup: func(sr *filecheck.SchedRun) error {
			d, err := pq.NewStandaloneDelegate(sr.File())
			if err != nil {
				return err
			}
			q, err := pq.New(d, pq.Settings{})
			if err != nil {
				return err
			}
			sr.User = &pqSchedState{q: q, events: evs}
			return nil
		},
		Actors: []func(sr *filecheck.SchedRun, a *filecheck.SchedActor){
			// producer
			func(sr *filecheck.SchedRun, a *filecheck.SchedActor) {
				s := st(sr)
				w, err := s.q.Writer()
				if err != nil {
					sr.Fail("producer-error", "Queue.Writer failed: %v", err)
					return
				}
				for i, ev := range s.events {
					half := len(ev) / 2
					if _, err := w.Write(ev[:half]); err == nil {
						_, err = w.Write(ev[half:])
					}
					if err == nil {
						err = w.Next()
					}
					if err != nil {
						sr.Fail("producer-error", "writing event %d failed: %+v", i, err)
						return
					}
					s.produced++
					sr.Yield(a, "p/next")
					if (i+1)%flushEvery == 0 {
						if err := w.Flush(); err != nil {
							sr.Fail("producer-error", "Flush failed: %+v", err)
							return
						}
						sr.Yield(a, "p/flushed")
					}
				}
				if err := w.Flush(); err != nil {
					sr.Fail("producer-error", "final Flush failed: %+v", err)
				}
			},
			// consumer
			func(sr *filecheck.SchedRun, a *filecheck.SchedActor) {
				s := st(sr)
				rd := s.q.Reader()
				for round := 0; round < 4 && s.consumed < len(s.events); round++ {
					if !readSome(sr, a, rd, s, true) {
						return
					}
					sr.Yield(a, "c/done")
					if k := s.consumed - s.acked; k > 0 {
						if k > ackBatch {
							k = ackBatch
						}
						if err := s.q.ACK(uint(k)); err != nil {
							sr.Fail("consumer-error", "ACK(%d) failed (acked=%d consumed=%d): %+v", k, s.acked, s.consumed, err)
							return
						}
						s.acked += k
					}
					sr.Yield(a, "c/acked")
				}
			},
		},
		Final: func(sr *filecheck.SchedRun) {
			s := st(sr)
			rd := s.q.Reader()
			if !readSome(sr, nil, rd, s, false) {
				return
			}
			if s.consumed != len(s.events) {
				sr.Fail("lost-events", "producer flushed %d events, consumer received %d", len(s.events), s.consumed)
				return
			}
			if k := s.consumed - s.acked; k > 0 {
				if err := s.q.ACK(uint(k)); err != nil {
					sr.Fail("consumer-error", "final ACK(%d) failed: %+v", k, err)
					return
				}
			}
			if pend, err := s.q.Pending(); err != nil || pend != 0 {
				sr.Fail("final-pending", "everything consumed and ACKed but Pending=%d (%v)", pend, err)
				return
			}
			if err := s.q.Close(); err != nil {
				sr.Fail("qclose-error", "Queue.Close failed: %v", err)
			}
		},
	}
}

func runPQSchedCase(c *core.Case) *core.Result {
	res := &core.Result{}
	cs := pqSchedSet(c.R, 1024)
	budget, maxPre := 120, 2
	if c.Tier == "thorough" {
		budget, maxPre = 3000, 3
	}
	seen := map[string]bool{}
	n, rule, msg, trace := filecheck.ExploreCustom(cs, maxPre, budget, seen)
	res.Add("schedules_executed", int64(n))
	res.Add("distinct_schedules", int64(len(seen)))
	res.Key = fmt.Sprintf("pqsched-%s-%d", cs.Name, len(seen))
	res.Nontrivial = len(seen) > 10
	if rule != "" {
		res.Violate("C13", "sched-"+rule, "sched-"+rule, fmt.Sprintf("%s, schedule [%s]: %s", cs.Name, trace, msg), map[string]interface{}{"set": cs.Name, "config": cs.Cfg})
	}
	if c.Idx%16 == 3 {
		var one string
		for k := range seen {
			one = k
			break
		}
		res.Sample = map[string]interface{}{"case": c.Idx, "set": cs.Name, "schedules": n, "one_schedule": one}
	}
	return res
}
