package pqcheck

import (
	"encoding/binary"
	"fmt"
	"reflect"
	"strings"

	txfile "github.com/elastic/go-txfile"
)

// dumpQueue decodes the on-disk queue structure (diagnostics for witnesses).
func dumpQueue(f *txfile.File, ps int) string {
	var sb strings.Builder
	tx, err := f.BeginReadonly()
	if err != nil {
		return "dump: " + err.Error()
	}
	defer tx.Close()
	rp, err := tx.RootPage()
	if err != nil || rp == nil {
		return fmt.Sprintf("dump: no root: %v", err)
	}
	rb, _ := rp.Bytes()
	pos := func(off int) (page uint64, po int, id uint64) {
		o := binary.LittleEndian.Uint64(rb[off:])
		id = binary.LittleEndian.Uint64(rb[off+8:])
		page = o / uint64(ps)
		po = int(o % uint64(ps))
		if page != 0 && po == 0 {
			po = ps
		}
		return
	}
	hp, ho, hid := pos(4)
	tp, to, tid := pos(20)
	rdp, rdo, rdid := pos(36)
	inuse := binary.LittleEndian.Uint64(rb[52:])
	fmt.Fprintf(&sb, "root: head=(p%d,%d,id%d) tail=(p%d,%d,id%d) read=(p%d,%d,id%d) inuse=%d\n", hp, ho, hid, tp, to, tid, rdp, rdo, rdid, inuse)
	// walk pages
	page := hp
	for n := 0; page != 0 && n < 400; n++ {
		pg, err := tx.Page(txfile.PageID(page))
		if err != nil {
			fmt.Fprintf(&sb, "  page %d: %v\n", page, err)
			break
		}
		b, err := pg.Bytes()
		if err != nil {
			fmt.Fprintf(&sb, "  page %d: %v\n", page, err)
			break
		}
		next := binary.LittleEndian.Uint64(b[0:])
		first := binary.LittleEndian.Uint64(b[8:])
		last := binary.LittleEndian.Uint64(b[16:])
		off := binary.LittleEndian.Uint32(b[24:])
		fmt.Fprintf(&sb, "  page %d: next=%d first=%d last=%d off=%d", page, next, first, last, off)
		if off != 0 {
			// decode event headers starting in this page
			o := int(off)
			id := first
			for o+4 <= ps && id <= last+1 {
				sz := int(binary.LittleEndian.Uint32(b[o:]))
				fmt.Fprintf(&sb, " [id%d@%d sz=%d]", id, o, sz)
				o += 4 + sz
				id++
				if sz == 0 {
					break
				}
			}
		}
		sb.WriteString("\n")
		page = next
	}
	return sb.String()
}

// chainPageFree walks the queue's page list from the head position of the
// queue header and reports a page that is free according to the allocator
// snapshot of the file (or lies behind the data end marker).
func chainPageFree(f *txfile.File, ps int) (page uint64, walked int, bad bool) {
	defer func() { recover() }() // damaged lists are the business of the event oracle
	tx, err := f.BeginReadonly()
	if err != nil {
		return 0, 0, false
	}
	defer tx.Close()
	rp, err := tx.RootPage()
	if err != nil || rp == nil {
		return 0, 0, false
	}
	rb, err := rp.Bytes()
	if err != nil || len(rb) < 60 {
		return 0, 0, false
	}
	snap := f.VerifSnapshot()
	free := func(id uint64) bool {
		if txfile.PageID(id) >= snap.DataEnd && txfile.PageID(id) >= snap.MetaEnd {
			return true
		}
		for _, r := range snap.DataFree {
			if txfile.PageID(id) >= r.ID && txfile.PageID(id) < r.ID+txfile.PageID(r.Count) {
				return true
			}
		}
		return false
	}
	page = binary.LittleEndian.Uint64(rb[4:]) / uint64(ps)
	tail := binary.LittleEndian.Uint64(rb[20:]) / uint64(ps)
	if o := binary.LittleEndian.Uint64(rb[20:]); o%uint64(ps) == 0 && tail > 0 {
		tail-- // a position at the very end of a page is stored as the next page's offset 0
	}
	for walked = 0; page != 0 && walked < 4096; walked++ {
		if free(page) {
			return page, walked, true
		}
		if page == tail {
			break // pages behind the tail belong to an unfinished flush
		}
		pg, err := tx.Page(txfile.PageID(page))
		if err != nil {
			return 0, walked, false
		}
		b, err := pg.Bytes()
		if err != nil || len(b) < 8 {
			return 0, walked, false
		}
		page = binary.LittleEndian.Uint64(b[0:])
	}
	return 0, walked, false
}

// readerState reads the (unexported) cursor of a pq.Reader via reflection (diagnostics only).
func readerState(rd interface{}) string {
	defer func() { recover() }()
	st := reflect.ValueOf(rd).Elem().FieldByName("state")
	cur := st.FieldByName("cursor")
	return fmt.Sprintf("reader: id=%d endID=%d eventBytes=%d totEventBytes=%d cursor=(p%d,%d)",
		st.FieldByName("id").Uint(), st.FieldByName("endID").Uint(), st.FieldByName("eventBytes").Int(), st.FieldByName("totEventBytes").Int(),
		cur.FieldByName("page").Uint(), cur.FieldByName("off").Int())
}
