package pqcheck

import (
	"bytes"
	"encoding/binary"
	"fmt"
	"runtime"
	"strconv"
	"strings"
	"sync"
	"sync/atomic"
	"time"

	txfile "github.com/elastic/go-txfile"
	"github.com/elastic/go-txfile/pq"

	"verif/core"
	"verif/filecheck"
	"verif/simdisk"
)

// C13: one producer goroutine and one consumer goroutine on the same queue.

func gid() int64 {
	var buf [64]byte
	n := runtime.Stack(buf[:], false)
	s := strings.TrimPrefix(string(buf[:n]), "goroutine ")
	if i := strings.IndexByte(s, ' '); i > 0 {
		v, _ := strconv.ParseInt(s[:i], 10, 64)
		return v
	}
	return 0
}

// eventGen deterministically generates the event sequence of a run. Producer
// and consumer each own an instance (same seed), so no state is shared. The
// generator tracks the page layout and regularly emits events that end exactly
// at (or within 3 bytes of) a page end.
type eventGen struct {
	seed int64
	ps   int
	i    int
	lay  layout
}

func newEventGen(seed int64, ps int) *eventGen {
	return &eventGen{seed: seed, ps: ps, lay: layout{payload: ps - szEventPageHeader}}
}

func (g *eventGen) Next() []byte {
	b := eventAt(g.seed, g.i, g.ps, &g.lay)
	g.i++
	return b
}

func eventAt(seed int64, i int, ps int, lay *layout) []byte {
	r := core.NewRand(seed, "c13-event", i)
	var n int
	switch r.Intn(6) {
	case 0:
		t := SizeTable(ps)
		n = t[r.Intn(len(t))]
	case 1:
		n = 1 + r.Intn(40)
	case 2:
		n = 1 + r.Intn(3*ps)
	case 3:
		// end exactly at the page end (or 1..3 bytes before it), possibly some pages later
		room := lay.payload - lay.used
		if !lay.started {
			room = lay.payload
		}
		n = room - szEventHeader - r.Intn(4) + r.Intn(3)*lay.payload
		if n < 1 {
			n = lay.payload - szEventHeader
		}
	default:
		n = 1 + r.Intn(ps/2)
	}
	lay.add(n)
	b := make([]byte, n)
	x := uint64(seed)*0x9E3779B97F4A7C15 ^ uint64(i+1)*0xD1B54A32D192ED03
	var hdr [8]byte
	binary.LittleEndian.PutUint64(hdr[:], uint64(i))
	for j := range b {
		if j < 8 {
			b[j] = hdr[j]
			continue
		}
		x ^= x << 13
		x ^= x >> 7
		x ^= x << 17
		b[j] = byte(x)
	}
	return b
}

type pcRun struct {
	res  *core.Result
	cfg  QConfig
	seed int64
	ps   int
	n    int // events to produce

	disk *simdisk.Disk
	f    *txfile.File
	q    *pq.Queue

	mu   sync.Mutex
	viol []*core.Violation
	stop int32

	prodGID, consGID     int64
	prodPoint, consPoint atomic.Value // commit point of the respective actor's write tx
	perturb              bool

	progress   [2]int64
	inCall     [2]int32
	produced   int64 // events completed by the producer
	flushedCB  int64
	ackedCB    int64
	deadlocked chan struct{}
	prodDone   int32
	prodErrs   int64
	hold       chan struct{} // closed when the consumer may start (late consumer cases)
	holdOnce   sync.Once
}

func (p *pcRun) violate(rule, sig, format string, args ...interface{}) {
	p.mu.Lock()
	if len(p.viol) < 5 {
		p.viol = append(p.viol, &core.Violation{Property: "C13", Rule: rule, Signature: sig, Message: fmt.Sprintf(format, args...), Witness: map[string]interface{}{"config": p.cfg, "events": p.n}})
	}
	p.mu.Unlock()
	atomic.StoreInt32(&p.stop, 1)
}

func (p *pcRun) stopped() bool { return atomic.LoadInt32(&p.stop) != 0 }

func (p *pcRun) hook(name string, arg int) {
	if !strings.HasPrefix(name, "commit/") {
		return
	}
	pt := strings.TrimPrefix(name, "commit/")
	if pt == "exit" {
		pt = "idle"
	}
	switch gid() {
	case atomic.LoadInt64(&p.prodGID):
		p.prodPoint.Store(pt)
	case atomic.LoadInt64(&p.consGID):
		p.consPoint.Store(pt)
	}
	if p.perturb {
		k := int(atomic.AddInt64(&p.progress[0], 0)+atomic.AddInt64(&p.progress[1], 0)) % 23
		for i := 0; i < k; i++ {
			runtime.Gosched()
		}
	}
}

func (p *pcRun) guard(what string) {
	if v := recover(); v != nil {
		buf := make([]byte, 16<<10)
		buf = buf[:runtime.Stack(buf, false)]
		p.violate("panic", "panic:"+core.PanicSig(v, string(buf)), "panic in %s: %v\n%s", what, v, core.TrimStack(string(buf)))
	}
}

func (p *pcRun) producer(r *core.Rand, wg *sync.WaitGroup, evs map[string]int64) {
	defer wg.Done()
	defer p.guard("producer")
	defer atomic.StoreInt32(&p.prodDone, 1)
	defer p.release()
	atomic.StoreInt64(&p.prodGID, gid())
	w, err := p.q.Writer()
	if err != nil {
		p.violate("writer-failed", "writer-failed", "Queue.Writer failed: %v", err)
		return
	}
	note := func(ev string) {
		pt, _ := p.consPoint.Load().(string)
		evs["producer-"+ev+"@consumer-ack-"+pt]++
	}
	retry := func(fn func() error, what string) bool {
		for tries := 0; ; tries++ {
			if p.stopped() {
				return false
			}
			atomic.StoreInt32(&p.inCall[0], 1)
			err := fn()
			atomic.StoreInt32(&p.inCall[0], 0)
			if err == nil {
				return true
			}
			if p.cfg.File.MaxPages > 0 && isSpaceErr(err) {
				// file full: wait for the consumer (bounded number of yields per try)
				atomic.AddInt64(&p.prodErrs, 1)
				atomic.AddInt64(&p.progress[0], 1)
				p.release()
				for i := 0; i < 200; i++ {
					runtime.Gosched()
				}
				if what == "next" {
					return true // event accepted although the flush failed
				}
				continue
			}
			p.violate("producer-error", "producer-error:"+what+":"+kinds(err), "producer %s failed: %+v", what, err)
			return false
		}
	}
	gen := newEventGen(p.seed, p.ps)
	for i := 0; i < p.n; i++ {
		ev := gen.Next()
		chunks := 1 + r.Intn(3)
		off := 0
		for off < len(ev) {
			n := len(ev) - off
			if chunks > 1 && n > 1 {
				n = 1 + r.Intn(n)
				chunks--
			}
			data := ev[off : off+n]
			note("write")
			if !retry(func() error { _, err := w.Write(data); return err }, "write") {
				return
			}
			off += n
		}
		note("next")
		if !retry(func() error { return w.Next() }, "next") {
			return
		}
		atomic.AddInt64(&p.produced, 1)
		atomic.AddInt64(&p.progress[0], 1)
		if r.Chance(1, 8) {
			note("flush")
			if !retry(func() error { return w.Flush() }, "flush") {
				return
			}
		}
		if r.Chance(1, 5) {
			for k := 0; k < r.Intn(40); k++ {
				runtime.Gosched()
			}
		}
	}
	note("flush")
	retry(func() error { return w.Flush() }, "flush")
}

// release lets a held consumer start.
func (p *pcRun) release() {
	if p.hold != nil {
		p.holdOnce.Do(func() { close(p.hold) })
	}
}

func (p *pcRun) consumer(r *core.Rand, wg *sync.WaitGroup, evs map[string]int64, got *int) {
	defer wg.Done()
	defer p.guard("consumer")
	if p.hold != nil {
		<-p.hold
	}
	atomic.StoreInt64(&p.consGID, gid())
	rd := p.q.Reader()
	note := func(ev string) {
		pt, _ := p.prodPoint.Load().(string)
		evs["consumer-"+ev+"@producer-flush-"+pt]++
	}
	gen := newEventGen(p.seed, p.ps)
	var want []byte
	next := 0  // index of the next event expected
	acked := 0 // events ACKed
	idle := 0
	sawDone := false
	for next < p.n && !p.stopped() {
		note("begin")
		atomic.StoreInt32(&p.inCall[1], 1)
		err := rd.Begin()
		atomic.StoreInt32(&p.inCall[1], 0)
		if err != nil {
			p.violate("consumer-error", "consumer-error:begin", "Reader.Begin failed: %+v", err)
			return
		}
		batch := 1 + r.Intn(30)
		readNow := 0
		for readNow < batch && next < p.n {
			note("next")
			n, err := rd.Next()
			if err != nil {
				rd.Done()
				p.violate("consumer-error", "consumer-error:next", "Reader.Next failed at event %d: %+v", next, err)
				return
			}
			if n == 0 {
				break
			}
			if want == nil {
				want = gen.Next()
			}
			if n != len(want) {
				rd.Done()
				p.violate("fifo-size", "fifo-size", "consumer expects event %d with %d bytes, reader reports %d bytes (produced so far %d)", next, len(want), n, atomic.LoadInt64(&p.produced))
				return
			}
			buf := make([]byte, n)
			off := 0
			for off < n {
				k := n - off
				if r.Chance(1, 3) && k > 1 {
					k = 1 + r.Intn(k)
				}
				m, err := rd.Read(buf[off : off+k])
				if err != nil || m != k {
					rd.Done()
					p.violate("consumer-error", "consumer-error:read", "Reader.Read of event %d returned %d of %d bytes: %v", next, m, k, err)
					return
				}
				off += m
			}
			if !bytes.Equal(buf, want) {
				rd.Done()
				id := uint64(0)
				if len(buf) >= 8 {
					id = binary.LittleEndian.Uint64(buf)
				}
				p.violate("fifo-bytes", "fifo-bytes", "consumer expects event %d, received different bytes (embedded id %d)", next, id)
				return
			}
			next++
			want = nil
			readNow++
			atomic.AddInt64(&p.progress[1], 1)
		}
		rd.Done()
		if readNow == 0 {
			// count empty rounds only after the producer is known to be done:
			// an attempt made before its final flush proves nothing
			if atomic.LoadInt32(&p.prodDone) == 1 {
				if !sawDone {
					sawDone, idle = true, 0
				}
				idle++
			}
			if sawDone && idle > 3 {
				// producer finished and flushed: everything must be visible
				pend, _ := p.q.Pending()
				av := uint(0)
				if err := rd.Begin(); err == nil {
					av, _ = rd.Available()
					rd.Done()
				}
				p.violate("lost-events", "lost-events", "producer completed %d events and flushed, but the consumer only receives %d (ACKed %d; Pending=%d, Flushed callback total=%d, ACKed callback total=%d, Reader.Available=%d)\n%s",
					atomic.LoadInt64(&p.produced), next, acked, pend, atomic.LoadInt64(&p.flushedCB), atomic.LoadInt64(&p.ackedCB), av, readerState(rd)+"\n"+dumpQueue(p.f, p.ps))
				return
			}
			for i := 0; i < 50; i++ {
				runtime.Gosched()
			}
			atomic.AddInt64(&p.progress[1], 1)
			continue
		}
		idle = 0
		// ACK some of what has been read
		for acked < next && r.Chance(3, 4) {
			k := 1 + r.Intn(next-acked)
			note("ack")
			atomic.StoreInt32(&p.inCall[1], 1)
			err := p.q.ACK(uint(k))
			atomic.StoreInt32(&p.inCall[1], 0)
			if err != nil {
				p.violate("consumer-error", "consumer-error:ack:"+kinds(err), "ACK(%d) failed (acked=%d, read=%d): %+v", k, acked, next, err)
				return
			}
			acked += k
		}
	}
	*got = next
	// final ACK of the rest
	if !p.stopped() && acked < next {
		if err := p.q.ACK(uint(next - acked)); err != nil {
			p.violate("consumer-error", "consumer-error:ack:"+kinds(err), "final ACK(%d) failed: %+v", next-acked, err)
		}
	}
}

func (p *pcRun) watch(done chan struct{}) {
	var last [2]int64
	still := 0
	t := time.NewTicker(20 * time.Millisecond)
	defer t.Stop()
	for {
		select {
		case <-done:
			return
		case <-t.C:
		}
		moved := false
		for i := 0; i < 2; i++ {
			if v := atomic.LoadInt64(&p.progress[i]); v != last[i] {
				last[i], moved = v, true
			}
		}
		if moved || p.disk.InFlight() {
			still = 0
			continue
		}
		still++
		if still < 150 {
			continue
		}
		still = 0
		buf := make([]byte, 1<<20)
		buf = buf[:runtime.Stack(buf, true)]
		blocked, other := 0, 0
		for _, g := range strings.Split(string(buf), "\n\n") {
			if !(strings.Contains(g, "pqcheck.(*pcRun).producer") || strings.Contains(g, "pqcheck.(*pcRun).consumer")) {
				continue
			}
			head := g
			if i := strings.IndexByte(g, '\n'); i > 0 {
				head = g[:i]
			}
			parked := strings.Contains(head, "sync.Cond.Wait") || strings.Contains(head, "sync.Mutex.Lock") || strings.Contains(head, "semacquire")
			if parked && strings.Contains(g, "github.com/elastic/go-txfile") {
				blocked++
			} else {
				other++
			}
		}
		if blocked > 0 && other == 0 {
			shared, pending, resFree := p.f.VerifLockState()
			close(p.deadlocked)
			p.violate("deadlock", "deadlock", "producer/consumer make no progress; %d go-routines parked on locks inside go-txfile; lock state shared=%d pending=%v reservedFree=%v\n%s", blocked, shared, pending, resFree, core.TrimStack(string(buf)))
			return
		}
	}
}

func runProdConsCase(c *core.Case) *core.Result {
	res := &core.Result{}
	r := c.R
	ps := []int{1024, 1024, 4096}[r.Intn(3)]
	fc := filecheck.Config{PageSize: uint32(ps), DiskCap: 16 << 20, SyncMode: r.Intn(3)}
	bounded := r.Chance(1, 2)
	// every 8th case: small bounded file and a consumer that only starts once
	// the producer ran into the full condition (or finished)
	lateConsumer := c.Idx%8 == 1
	if lateConsumer {
		bounded = true
	}
	if bounded {
		pages := 64*1024/ps + []int{48, 96, 200}[r.Intn(3)]
		if lateConsumer {
			pages = 64*1024/ps + 48
		}
		if pages < 96 {
			pages = 96
		}
		fc.MaxPages = pages
		fc.DiskCap = (pages + 256) * ps
	}
	fc.InitMetaArea = []uint32{0, 4, 16}[r.Intn(3)]
	cfg := QConfig{File: fc, WriteBuffer: uint([]int{0, 4, 16}[r.Intn(3)] * ps)}
	n := 150 + r.Intn(350)
	if c.Tier == "thorough" {
		n = 500 + r.Intn(2500)
	}
	if lateConsumer && n < 400 {
		n += 250
	}
	p := &pcRun{res: res, cfg: cfg, seed: c.Seed*1000003 + int64(c.Idx), ps: ps, n: n, perturb: r.Chance(2, 3), deadlocked: make(chan struct{})}
	p.prodPoint.Store("idle")
	p.consPoint.Store("idle")
	if lateConsumer {
		p.hold = make(chan struct{})
		res.Add("late_consumer_cases", 1)
	}
	p.disk = simdisk.New("simdisk", fc.DiskCap)
	p.disk.SetRecording(false)

	finish := func(got int, evs ...map[string]int64) *core.Result {
		p.mu.Lock()
		for _, v := range p.viol {
			res.Violations = append(res.Violations, v)
			res.Status = core.Violated
		}
		p.mu.Unlock()
		for _, m := range evs {
			for k, v := range m {
				res.Add("ev:"+k, v)
				res.SetAdd("interleaving_points", k)
			}
		}
		res.Add("events_produced", atomic.LoadInt64(&p.produced))
		res.Add("events_consumed", int64(got))
		res.Add("producer_full_errors", atomic.LoadInt64(&p.prodErrs))
		res.Key = fmt.Sprintf("%d-%d-%v-%d", n, ps, bounded, len(res.Sets["interleaving_points"]))
		res.Nontrivial = got >= 50
		if c.Idx%13 == 0 {
			res.Sample = map[string]interface{}{"case": c.Idx, "config": cfg, "events": n, "consumed": got, "full_errors": atomic.LoadInt64(&p.prodErrs)}
		}
		if res.Status == core.Violated && p.disk.AddressSpaceExceeded {
			res.Status, res.Violations, res.Note = core.Inconclusive, nil, "simulated-address-space-exceeded"
		}
		return res
	}

	opts := fc.Options()
	f, err := txfile.VerifOpenWith(p.disk, opts, p.hook)
	if err != nil {
		p.violate("open-failed", "open-failed", "open failed: %v", err)
		return finish(0)
	}
	p.f = f
	d, err := pq.NewStandaloneDelegate(f)
	if err != nil {
		p.violate("delegate-failed", "delegate-failed", "delegate failed: %v", err)
		return finish(0)
	}
	obs := &qObserver{}
	q, err := pq.New(d, pq.Settings{WriteBuffer: cfg.WriteBuffer, Observer: obs,
		Flushed: func(n uint) { atomic.AddInt64(&p.flushedCB, int64(n)) },
		ACKed:   func(ev, pages uint) { atomic.AddInt64(&p.ackedCB, int64(ev)) }})
	if err != nil {
		p.violate("queue-open-failed", "queue-open-failed", "pq.New failed: %v", err)
		return finish(0)
	}
	p.q = q

	var wg sync.WaitGroup
	done := make(chan struct{})
	go p.watch(done)
	pe, ce := map[string]int64{}, map[string]int64{}
	got := 0
	pr, cr := r.Sub("producer", 0), r.Sub("consumer", 0)
	wg.Add(2)
	go p.producer(pr, &wg, pe)
	go p.consumer(cr, &wg, ce, &got)
	finished := make(chan struct{})
	go func() { wg.Wait(); close(finished) }()
	select {
	case <-finished:
	case <-p.deadlocked:
	}
	close(done)

	p.mu.Lock()
	nv := len(p.viol)
	p.mu.Unlock()
	if nv == 0 {
		if got != n {
			p.violate("lost-events", "lost-events", "consumer received %d of %d events", got, n)
		} else if pend, err := q.Pending(); err != nil || pend != 0 {
			p.violate("final-pending", "final-pending", "all %d events consumed and ACKed but Pending=%d (%v)", n, pend, err)
		} else if fl, ak := atomic.LoadInt64(&p.flushedCB), atomic.LoadInt64(&p.ackedCB); fl != int64(n) || ak != int64(n) {
			p.violate("final-callbacks", "final-callbacks", "callback totals flushed=%d acked=%d, expected %d", fl, ak, n)
		}
		if shared, pending, resFree := f.VerifLockState(); shared != 0 || pending || !resFree {
			p.violate("lock-leak", "lock-leak", "lock state after run: shared=%d pending=%v reservedFree=%v", shared, pending, resFree)
		}
		q.Close()
		f.Close()
	}
	return finish(got, pe, ce)
}

func init() {
	core.Register(&core.Check{
		ID:          "C13",
		Level:       "exploration",
		Rule:        "case = one free-running run (race detector build, Observer installed) of a producer goroutine (150-500 events quick / 500-3000 thorough, sizes from the boundary table and random, 1-3 Write chunks, PRNG Flush calls, retry on full) and a consumer goroutine (Begin, Next/Read with partial reads in PRNG batches, Done, ACK of PRNG prefixes of what was read) on one queue, on unbounded and nearly-full bounded files, with PRNG yields injected at the commit hook points of both write transactions (flush and ACK); both sides compute event i independently from (seed,i); oracle = consumer receives exactly event 0,1,2,... byte-identical (FIFO, no loss/dup), every ACK succeeds, all events arrive after the producer's final flush, Pending==0 and callback totals == N at the end, lock state idle, state-based deadlock detector, race detector; every 4th case instead runs the cooperative scheduler on a producer actor (4-7 events around page boundaries, two Write chunks each, flush every 1-3 events) and a consumer actor (read with the transaction kept open across yield points, ACK batches): all schedules with <=2 (quick) / <=3 (thorough) preemptions at step boundaries and lock-adjacent hook points of the flush/ACK transactions are enumerated up to a budget, same FIFO/ACK/Pending oracles, deadlock = no enabled actor; distinct = (N, page size, bounded, #interleaving points); non-trivial = >=50 events consumed",
		Assumptions: append([]string{"interleavings are sampled (Go scheduler + injected yields); evidence lists the (actor step @ other actor's commit point) pairs observed"}, qAssumptions[0], qAssumptions[2]),
		NumCases:    func(t string) int { return tierN(t, 64, 1000) },
		Race:        func(t string, i int) bool { return i%4 != 3 }, // scheduler cases are deterministic: plain build
		CaseTimeout: func(t string) time.Duration {
			if t == "thorough" {
				return 10 * time.Minute
			}
			return 6 * time.Minute
		},
		Run: func(c *core.Case) *core.Result {
			if c.Idx%4 == 3 {
				return runPQSchedCase(c)
			}
			return runProdConsCase(c)
		},
		Finalize: func(a *core.Aggregate) error {
			need := []string{"consumer-ack@producer-flush-idle", "consumer-next@producer-flush-before-exclusive", "producer-write@consumer-ack-idle"}
			for _, k := range need {
				if a.Stats["ev:"+k] == 0 {
					return fmt.Errorf("interleaving %q never observed", k)
				}
			}
			if a.Stats["distinct_schedules"] == 0 {
				return fmt.Errorf("cooperative scheduler executed no schedule")
			}
			if a.Stats["producer_full_errors"] == 0 {
				return fmt.Errorf("no run on a nearly full file hit the full condition")
			}
			return nil
		},
	})
}
