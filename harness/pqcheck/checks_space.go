package pqcheck

import (
	"fmt"
	"time"

	"verif/core"
	"verif/filecheck"
	"verif/simdisk"
)

// C12: fill-to-error / drain cycles on small bounded files.

func runFillDrainCase(c *core.Case) *core.Result {
	res := &core.Result{}
	r := c.R
	ps := []int{1024, 1024, 4096}[r.Intn(3)]
	minPages := 64 * 1024 / ps
	if minPages < 48 {
		// leave room for write buffer (>= 5 pages), meta area and the pages
		// the queue legitimately keeps after a complete drain
		minPages = 48
	}
	maxPages := minPages + []int{0, 8, 32, 64, 128}[r.Intn(5)]
	fc := filecheck.Config{PageSize: uint32(ps), MaxPages: maxPages, DiskCap: (maxPages + 256) * ps, SyncMode: r.Intn(3)}
	fc.InitMetaArea = []uint32{0, 0, 2, 8}[r.Intn(4)]
	fc.Prealloc = r.Chance(1, 4)
	wbPages := []int{0, 1, 4, 8}[r.Intn(4)]
	cfg := QConfig{File: fc, WriteBuffer: uint(wbPages * ps)}
	bulk := c.Idx%8 == 3 || c.Idx%8 == 6
	if bulk {
		// a fresh file that is filled to the last page (meta area included) by
		// bulk flushes of page sized events before anything is ACKed: the ACK
		// must still commit (cleanup transactions may use the overflow area)
		ps = 1024
		maxPages = 64 + []int{0, 0, 1, 5}[r.Intn(4)]
		fc = filecheck.Config{PageSize: uint32(ps), MaxPages: maxPages, DiskCap: (maxPages + 256) * ps, SyncMode: r.Intn(3)}
		// the first implicit flush allocates all but five pages of the file at once
		cfg = QConfig{File: fc, WriteBuffer: uint((maxPages - 5 - r.Intn(2)) * ps)}
	}
	q := NewQWorld(cfg, QMon{Property: "C12", Space: true, Counters: true}, r, res)
	q.TraceOn = c.Verbose
	table := SizeTable(ps)
	maxEvent := maxPages * (ps - szEventPageHeader) / 16

	fileBytes := int64(maxPages) * int64(ps)
	target := fileBytes * 12
	if c.Tier == "thorough" {
		target = fileBytes * 60
	}
	var traffic int64
	cycles, fulls := 0, 0

	nextSize := func() int {
		var n int
		if bulk && cycles <= 1 {
			return ps - szEventPageHeader - szEventHeader // exactly one page per event
		}
		switch r.Intn(4) {
		case 0:
			n = table[r.Intn(len(table))]
		case 1:
			n = 1 + r.Intn(100)
		default:
			n = 1 + r.Intn(maxEvent)
		}
		if n > maxEvent {
			n = maxEvent
		}
		return n
	}

	drain := func(all bool) bool {
		// read what is visible (with PRNG buffer sizes) and ACK it in PRNG batches
		if !q.BeginRead() {
			return false
		}
		limit := -1
		if !all {
			limit = 1 + r.Intn(20)
		}
		for limit != 0 {
			if q.ReadOff < 0 {
				if !q.ReadNext() {
					return false
				}
				if q.ReadOff < 0 {
					break
				}
			}
			bs := []int{7, 100, ps, 1 << 20}[r.Intn(4)]
			for q.ReadOff >= 0 {
				if !q.Read(bs) {
					return false
				}
			}
			limit--
		}
		if !q.DoneRead() {
			return false
		}
		for stuck := 0; q.FullyRead() > q.Acked && stuck < 64; {
			before := q.Acked
			n := 1 + r.Intn(8)
			if max := q.FullyRead() - q.Acked; n > max {
				n = max
			}
			if !q.ACK(n) { // reading and ACK must succeed on the full file
				return false
			}
			if q.Acked == before { // an injected fault failed the ACK (fault cases only)
				stuck++
			}
		}
		return true
	}

	finish := func() *core.Result {
		res.Add("cycles", int64(cycles))
		res.Add("full_conditions", int64(fulls))
		res.Add("traffic_bytes", traffic)
		res.Max("traffic_x_filesize", traffic/fileBytes)
		res.Max("file_extent_pct_of_max", q.Disk.MaxExtent*100/fileBytes)
		out := finishQCase(c, q, res, cycles)
		out.Nontrivial = fulls >= 1 && q.Completed >= 3
		return out
	}

	if !q.Open() {
		return finish()
	}
	if c.Idx%5 == 4 {
		// additionally inject I/O errors into flush/ACK transactions: a flush
		// that fails in Commit (pages already assigned) must be retried cleanly
		q.Faulty = true
		var fl []simdisk.Fault
		for k := 0; k < 6; k++ {
			fl = append(fl, simdisk.Fault{Kind: simdisk.KSync, Index: 10 + k*60 + r.Intn(50), Burst: 1})
		}
		q.Disk.SetFaults(fl)
		res.Add("fault_cases", 1)
	}
	for traffic < target && !q.failed {
		cycles++
		// fill until the file reports full (or a cap of events)
		errsBefore := q.WriteErrs + q.NextErrs + q.FlushErrs
		for i := 0; i < 400 && !q.failed; i++ {
			size := nextSize()
			chunks := 1 + r.Intn(3)
			for q.cur != nil || chunks > 0 {
				rem := size
				if q.cur != nil {
					rem = len(q.cur) - q.curOff
				}
				ch := rem
				if chunks > 1 {
					ch = 1 + r.Intn(rem)
				}
				if !q.WriteChunk(size, ch) {
					return finish()
				}
				chunks--
				if q.WriteErrs+q.NextErrs+q.FlushErrs > errsBefore {
					break
				}
				if q.cur == nil {
					break
				}
			}
			if q.WriteErrs+q.NextErrs+q.FlushErrs > errsBefore {
				break
			}
			if r.Chance(1, 10) && !(bulk && cycles <= 1) && !q.Flush() {
				return finish()
			}
			if q.WriteErrs+q.NextErrs+q.FlushErrs > errsBefore {
				break
			}
			if r.Chance(1, 15) && !(bulk && cycles <= 1) && !drain(false) {
				return finish()
			}
		}
		full := q.WriteErrs+q.NextErrs+q.FlushErrs > errsBefore
		if full {
			fulls++
		}
		// consumer catches up completely
		if !drain(true) {
			return finish()
		}
		if bulk {
			// the write buffer is about as large as the file, so nothing can be
			// demanded from the writer here; the point of this variant is that
			// reading and ACK succeed on a file that is full to the last page
			res.Add("bulk_fill_cases", 1)
			traffic = 0
			for _, e := range q.Events {
				traffic += int64(len(e))
			}
			break
		}
		// After space has been freed the buffered events are flushed by a later call.
		// A chunk that was refused is retried first.
		for try := 0; q.cur != nil && try < 4; try++ {
			if !q.WriteChunk(0, 0) {
				return finish()
			}
			if q.cur != nil {
				if !drain(true) {
					return finish()
				}
			}
		}
		if q.cur != nil {
			q.violate("stuck-after-drain", "stuck-after-drain", "after draining the queue completely, the pending chunk is still refused (file of %d pages, event of %d bytes)", maxPages, len(q.cur))
			return finish()
		}
		flushErrs := q.FlushErrs
		if !q.Flush() {
			return finish()
		}
		if q.FlushErrs > flushErrs {
			// one more complete drain frees the pages of the last ACKed events; then it must work
			if !drain(true) {
				return finish()
			}
			flushErrs = q.FlushErrs
			if !q.Flush() {
				return finish()
			}
			if q.FlushErrs > flushErrs {
				q.violate("flush-after-drain", "flush-after-drain", "Flush still fails after the queue was drained and ACKed completely (file of %d pages, %d buffered events)", maxPages, q.Completed-q.cbFlushed)
				return finish()
			}
		}
		if !drain(true) {
			return finish()
		}
		traffic = 0
		for _, e := range q.Events {
			traffic += int64(len(e))
		}
		if q.UnsafeReopen && q.cbFlushed+q.Acked > q.lastProgress {
			q.UnsafeReopen = false // a later transaction committed
		}
		q.lastProgress = q.cbFlushed + q.Acked
		if r.Chance(1, 6) && !q.UnsafeReopen && !q.Reopen() {
			return finish()
		}
	}
	return finish()
}

func init() {
	core.Register(&core.Check{
		ID:          "C12",
		Level:       "exploration",
		Rule:        "case = producer/consumer history with fill-to-error / drain cycles on a bounded file (64KiB..64KiB+128 pages, page size 1024/4096, write buffer 0/1/4/8 pages, event sizes from the boundary table and random up to 1/16 of the file, 1-3 Write chunks per event, PRNG read buffer and ACK batch sizes, occasional reopen) until >= 12x (quick) / 60x (thorough) the file size passed through; oracle = only space errors from Write/Next/Flush, no panic; queue model: nothing lost/reordered/duplicated, refused chunks are retried; reading and ACK always succeed on the full file; after every ACK the data pages held (allocator snapshot hook) <= 1 + pages from the start page of the last ACKed event through the tail page + 1 (layout computed by the model); after a complete drain the pending chunk is accepted and Flush succeeds; counters as C17; distinct = trace hash; non-trivial = >=1 full condition reached",
		Assumptions: append([]string{"event sizes are limited to 1/16 of the file (files >= 48 pages) so that 'an event that fits the file' is unambiguous"}, qAssumptions...),
		NumCases:    func(t string) int { return tierN(t, 160, 5000) },
		Race:        func(t string, i int) bool { return i%40 == 0 },
		CaseTimeout: func(t string) time.Duration { return 10 * time.Minute },
		Run:         runFillDrainCase,
		Finalize: func(a *core.Aggregate) error {
			if a.Stats["full_conditions"] == 0 || a.Stats["space_checks"] == 0 {
				return fmt.Errorf("no full file condition / no space check observed")
			}
			return nil
		},
	})
}
