package pqcheck

import (
	"fmt"
	"runtime/debug"
	"strings"

	"github.com/elastic/go-txfile/pq"
	"github.com/elastic/go-txfile/txerr"

	"verif/core"
	"verif/filecheck"
	"verif/simdisk"
)

// C15, queue layer cells.

var queueCells = []string{
	"writer(before close).Write after Queue.Close",
	"writer(before close).Next after Queue.Close",
	"writer(before close).Flush after Queue.Close",
	"reader(before close).Begin after Queue.Close",
	"reader(before close, tx open).Next after Queue.Close",
	"reader(before close, tx open).Read after Queue.Close",
	"reader(before close, tx open).Available after Queue.Close",
	"Queue.Reader() after Close, Begin",
	"Queue.Writer() after Close, Write",
	"Queue.ACK(1) after Close",
	"reader.Next without Begin",
	"reader.Read without Begin",
	"reader.Available without Begin",
	"reader.Begin twice",
	"reader.Done without Begin",
	"Queue.ACK(0)",
	"Queue.ACK(1) on a queue that never held an event",
	"Queue.ACK(pending+1)",
	"Queue.ACK(pending+1000)",
	"Queue.ACK(1) after a Queue.Close that failed to flush (file full)",
	"Queue.Reader() after a Queue.Close that failed to flush (file full), Begin",
}

func init() {
	filecheck.QueueMisuseCells = func() []string { return queueCells }
	filecheck.RunQueueMisuse = runQueueMisuse
}

func runQueueMisuse(c *core.Case, name string, res *core.Result) {
	r := c.R
	cfg := genQConfig(r, 0)
	q := NewQWorld(cfg, QMon{Property: "C15", Counters: true}, r, res)
	q.TraceOn = c.Verbose
	defer func() {
		if q.F != nil {
			f := q.F
			q.guard("File.Close(final)", func() { f.Close() })
		}
		res.Key = name + "/" + q.Key()
		res.Nontrivial = true
	}()
	type out struct {
		err      error
		panicked bool
		pv       interface{}
		stack    string
	}
	call := func(fn func() error) (o out) {
		defer func() {
			if p := recover(); p != nil {
				o.panicked, o.pv, o.stack = true, p, string(debug.Stack())
			}
		}()
		o.err = fn()
		return o
	}
	expect := func(o out, kindsOK ...error) bool {
		if o.panicked {
			q.failed = true
			res.Violate("C15", "misuse-panic", "misuse-panic:queue:"+name+":"+core.PanicSig(o.pv, o.stack), fmt.Sprintf("%s panicked: %v", name, o.pv), map[string]interface{}{"stack": core.TrimStack(o.stack), "trace": q.tail(30)})
			return false
		}
		if len(kindsOK) == 0 {
			if o.err != nil {
				return q.violate("misuse-kind", "misuse-kind:queue:"+name, "%s returned %v, expected no error", name, o.err)
			}
			return true
		}
		if o.err == nil {
			return q.violate("misuse-noerror", "misuse-noerror:queue:"+name, "%s returned no error, expected %v", name, kindsOK)
		}
		for _, k := range kindsOK {
			if txerr.Is(k, o.err) {
				return true
			}
		}
		return q.violate("misuse-kind", "misuse-kind:queue:"+name, "%s returned error kinds [%s] (%v), expected %v", name, kinds(o.err), o.err, kindsOK)
	}

	failedClose := strings.Contains(name, "failed to flush")
	if failedClose {
		// small bounded file, filled until the writer reports full with events still buffered
		ps := 1024
		cfg = QConfig{File: filecheck.Config{PageSize: uint32(ps), MaxPages: 64 + r.Intn(16), DiskCap: 1 << 20, SyncMode: r.Intn(3)}, WriteBuffer: uint(4 * ps)}
		q.Cfg = cfg
		q.Disk = simdisk.New("simdisk", cfg.File.DiskCap)
	}
	if !q.Open() {
		return
	}
	if failedClose {
		for i := 0; i < 400 && q.WriteErrs+q.NextErrs+q.FlushErrs == 0; i++ {
			if !q.WriteChunk(200+r.Intn(1500), 0) {
				return
			}
		}
		// a few more events that stay in the write buffer
		for i := 0; i < 2; i++ {
			if !q.WriteChunk(300, 0) {
				return
			}
		}
		if q.WriteErrs+q.NextErrs+q.FlushErrs == 0 || q.cbFlushed == q.Completed {
			res.Status, res.Note = core.Inconclusive, "could-not-produce-failing-close"
			return
		}
		pend, _ := q.Q.Pending()
		var cerr error
		if q.guard("Queue.Close", func() { cerr = q.Q.Close() }) {
			return
		}
		if cerr == nil {
			res.Status, res.Note = core.Inconclusive, "close-did-not-fail"
			return
		}
		o := call(func() error {
			if strings.Contains(name, "ACK") {
				return q.Q.ACK(1)
			}
			rd := q.Q.Reader()
			err := rd.Begin()
			if err == nil {
				rd.Done()
			}
			return err
		})
		if !expect(o, pq.QueueClosed, pq.ReaderClosed) {
			return
		}
		pend2, err := q.Q.Pending()
		if err != nil || pend2 != pend {
			q.violate("misuse-effect", "misuse-effect:queue:"+name, "%s changed Pending from %d to %d (%v)", name, pend, pend2, err)
		}
		return
	}
	empty := name == "Queue.ACK(1) on a queue that never held an event"
	if !empty {
		// prefix history
		n := 3 + r.Intn(10)
		maxLen := 3000
		if r.Chance(1, 2) {
			maxLen = 150 // several events per page: ACK boundaries inside the head page
		}
		for i := 0; i < n; i++ {
			if !q.WriteChunk(1+r.Intn(maxLen), 0) {
				return
			}
		}
		if !q.Flush() {
			return
		}
		// read and ACK a few
		k := r.Intn(n - 1)
		if !q.BeginRead() {
			return
		}
		for i := 0; i < k; i++ {
			if !q.ReadNext() || !q.Read(1<<20) {
				return
			}
		}
		if !q.DoneRead() {
			return
		}
		if k > 0 && r.Chance(3, 4) && !q.ACK(1+r.Intn(k)) {
			return
		}
	}
	pendBefore, _ := q.Q.Pending()

	closedCase := false
	buf := make([]byte, 64)
	switch name {
	case "writer(before close).Write after Queue.Close", "writer(before close).Next after Queue.Close", "writer(before close).Flush after Queue.Close":
		w := q.W
		if !q.closeQueueOnly() {
			return
		}
		closedCase = true
		o := call(func() error {
			switch name {
			case "writer(before close).Write after Queue.Close":
				_, err := w.Write([]byte("x"))
				return err
			case "writer(before close).Next after Queue.Close":
				return w.Next()
			}
			return w.Flush()
		})
		if !expect(o, pq.WriterClosed) {
			return
		}
	case "reader(before close).Begin after Queue.Close":
		rd := q.R
		if !q.closeQueueOnly() {
			return
		}
		closedCase = true
		if !expect(call(func() error { return rd.Begin() }), pq.ReaderClosed) {
			return
		}
	case "reader(before close, tx open).Next after Queue.Close", "reader(before close, tx open).Read after Queue.Close", "reader(before close, tx open).Available after Queue.Close":
		rd := q.R
		if !q.BeginRead() {
			return
		}
		q.InReadTx = false // the queue is closed with the read transaction open
		if !q.closeQueueOnly() {
			return
		}
		closedCase = true
		o := call(func() error {
			switch name {
			case "reader(before close, tx open).Next after Queue.Close":
				_, err := rd.Next()
				return err
			case "reader(before close, tx open).Read after Queue.Close":
				_, err := rd.Read(buf)
				return err
			}
			_, err := rd.Available()
			return err
		})
		ok := expect(o, pq.ReaderClosed)
		q.guard("Reader.Done", func() { rd.Done() }) // release the shared lock
		if !ok {
			return
		}
	case "Queue.Reader() after Close, Begin":
		if !q.closeQueueOnly() {
			return
		}
		closedCase = true
		var rd *pq.Reader
		o := call(func() error { rd = q.Q.Reader(); return rd.Begin() })
		if !o.panicked && o.err == nil {
			rd.Done()
		}
		if !expect(o, pq.ReaderClosed, pq.QueueClosed) {
			return
		}
	case "Queue.Writer() after Close, Write":
		if !q.closeQueueOnly() {
			return
		}
		closedCase = true
		o := call(func() error {
			w, err := q.Q.Writer()
			if err != nil {
				return err
			}
			_, err = w.Write([]byte("late"))
			if err == nil {
				err = w.Next()
			}
			if err == nil {
				err = w.Flush()
			}
			return err
		})
		if !expect(o, pq.WriterClosed, pq.QueueClosed) {
			return
		}
	case "Queue.ACK(1) after Close":
		if !q.closeQueueOnly() {
			return
		}
		closedCase = true
		if !expect(call(func() error { return q.Q.ACK(1) }), pq.QueueClosed) {
			return
		}
	case "reader.Next without Begin":
		if !expect(call(func() error { _, err := q.R.Next(); return err }), pq.InactiveTx) {
			return
		}
	case "reader.Read without Begin":
		if !expect(call(func() error { _, err := q.R.Read(buf); return err }), pq.InactiveTx) {
			return
		}
	case "reader.Available without Begin":
		if !expect(call(func() error { _, err := q.R.Available(); return err }), pq.InactiveTx) {
			return
		}
	case "reader.Begin twice":
		if !q.BeginRead() {
			return
		}
		ok := expect(call(func() error { return q.R.Begin() }), pq.UnexpectedActiveTx)
		if !q.DoneRead() || !ok {
			return
		}
	case "reader.Done without Begin":
		if !expect(call(func() error { q.R.Done(); return nil })) {
			return
		}
	case "Queue.ACK(0)":
		if !expect(call(func() error { return q.Q.ACK(0) })) {
			return
		}
	case "Queue.ACK(1) on a queue that never held an event":
		if !expect(call(func() error { return q.Q.ACK(1) }), pq.ACKEmptyQueue) {
			return
		}
	case "Queue.ACK(pending+1)", "Queue.ACK(pending+1000)":
		n := pendBefore + 1
		if name == "Queue.ACK(pending+1000)" {
			n = pendBefore + 1000
		}
		if !expect(call(func() error { return q.Q.ACK(uint(n)) }), pq.ACKTooMany) {
			return
		}
	default:
		panic("harness: unknown queue cell " + name)
	}

	// nothing changed: counters and deliverable sequence
	pendAfter, err := q.Q.Pending()
	if err != nil || pendAfter != pendBefore {
		q.violate("misuse-effect", "misuse-effect:queue:"+name, "%s changed Pending from %d to %d (%v)", name, pendBefore, pendAfter, err)
		return
	}
	if closedCase {
		// reopen the queue on the same file and compare with the model
		f := q.F
		var cerr error
		if q.guard("File.Close", func() { cerr = f.Close() }) {
			return
		}
		q.F = nil
		if cerr != nil {
			q.violate("fclose-error", "fclose-error", "File.Close failed: %v", cerr)
			return
		}
		if !q.Open() {
			return
		}
	}
	if !q.checkCounters("misuse " + name) {
		return
	}
	if !q.Drain(1 << 16) {
		return
	}
	if q.ReadPos != q.Completed {
		q.violate("misuse-effect", "misuse-effect:queue:"+name, "after %s the reader delivers events up to %d of %d", name, q.ReadPos, q.Completed)
	}
}

// closeQueueOnly closes the queue (flushing), keeps the file open and updates the model.
func (q *QWorld) closeQueueOnly() bool {
	if q.InReadTx && !q.DoneRead() {
		return false
	}
	var err error
	if q.guard("Queue.Close", func() { err = q.Q.Close() }) {
		return false
	}
	if err != nil {
		return q.violate("qclose-error", "qclose-error:"+kinds(err), "Queue.Close failed: %v", err)
	}
	q.FlushedLo = q.Completed
	q.cur, q.curOff = nil, 0
	q.tracef("qclose")
	return true
}
