// Package pqcheck drives the pq queue layer against a sequential event model.
package pqcheck
