package pqcheck

import (
	"bytes"
	"fmt"
	"time"

	txfile "github.com/elastic/go-txfile"
	"github.com/elastic/go-txfile/pq"

	"verif/core"
	"verif/filecheck"
	"verif/simdisk"
)

// C06: queue durability across crash and reopen.

// recoverQueue opens a crash image and drains it. Returns the delivered events.
func recoverQueue(c *core.Case, cfg QConfig, img []byte, res *core.Result, what string, probe bool, maxLen int) (events [][]byte, pending int, ok bool) {
	sub := &core.Result{}
	q := NewQWorld(cfg, QMon{Property: "C06"}, c.R, sub)
	q.Disk = simdisk.FromImage("crash-image", img, cfg.File.DiskCap)
	q.Disk.SetRecording(false)
	adopt := func() {
		for _, v := range sub.Violations {
			v.Message = what + ": " + v.Message
			res.Violations = append(res.Violations, v)
		}
		res.Status = core.Violated
	}
	defer func() {
		if q.F != nil {
			f := q.F
			q.guard("File.Close", func() { f.Close() })
		}
	}()
	if !q.Open() {
		adopt()
		return nil, 0, false
	}
	fail := func(rule, format string, args ...interface{}) {
		res.Violate("C06", rule, rule, what+": "+fmt.Sprintf(format, args...), map[string]interface{}{"config": cfg})
	}
	// structure: no page of the recovered queue's page list may be a free page of the file
	if pg, n, bad := chainPageFree(q.F, int(cfg.File.PageSize)); bad {
		fail("recovered-chain-page-free", "page %d of the recovered queue's page list (%d pages walked) is in the free list of the file: events that are still pending would be overwritten by the next flush", pg, n)
		return nil, 0, false
	}
	var err error
	if q.guard("Pending", func() { pending, err = q.Q.Pending() }) {
		adopt()
		return nil, 0, false
	}
	if err != nil {
		fail("recovered-pending", "Pending failed on recovered queue: %v", err)
		return nil, 0, false
	}
	read := func() ([][]byte, bool) {
		var out [][]byte
		good := true
		if q.guard("drain recovered queue", func() {
			if err := q.R.Begin(); err != nil {
				fail("recovered-read", "Reader.Begin failed: %v", err)
				good = false
				return
			}
			defer q.R.Done()
			for {
				n, err := q.R.Next()
				if err != nil {
					fail("recovered-read", "Reader.Next failed after %d events: %+v", len(out), err)
					good = false
					return
				}
				if n == 0 {
					return
				}
				if n > maxLen {
					fail("recovered-size", "recovered queue reports an event of %d bytes after %d events; no event of that size was ever written (max %d)", n, len(out), maxLen)
					good = false
					return
				}
				buf := make([]byte, n)
				k, err := q.R.Read(buf)
				if err != nil || k != n {
					fail("recovered-read", "Reader.Read of event %d returned %d of %d bytes: %v", len(out), k, n, err)
					good = false
					return
				}
				out = append(out, buf)
				if len(out) > 100000 {
					fail("recovered-read", "reader does not reach the end of the queue")
					good = false
					return
				}
			}
		}) {
			adopt()
			return nil, false
		}
		return out, good
	}
	events, good := read()
	if !good {
		return nil, 0, false
	}
	if probe {
		// the recovered queue accepts new events and delivers old+new in order
		extra := [][]byte{q.MakeEvent(5), q.MakeEvent(3000)}
		var werr error
		if q.guard("write to recovered queue", func() {
			for _, e := range extra {
				if _, werr = q.W.Write(e); werr != nil {
					return
				}
				if werr = q.W.Next(); werr != nil {
					return
				}
			}
			werr = q.W.Flush()
		}) {
			adopt()
			return nil, 0, false
		}
		if werr != nil {
			if !(cfg.File.MaxPages > 0 && isSpaceErr(werr)) {
				fail("recovered-write", "writing to the recovered queue failed: %+v", werr)
				return nil, 0, false
			}
		} else {
			// a new reader position starts after what was read above: only the new events follow
			more, good := read()
			if !good {
				return nil, 0, false
			}
			if len(more) != 2 || !bytes.Equal(more[0], extra[0]) || !bytes.Equal(more[1], extra[1]) {
				fail("recovered-append", "after appending 2 events to the recovered queue the reader delivered %d further events / wrong bytes", len(more))
				return nil, 0, false
			}
			res.Add("recovery_append_probes", 1)
		}
	}
	return events, pending, true
}

func runQCrashCase(c *core.Case) *core.Result {
	res := &core.Result{}
	r := c.R
	cfg := genQConfig(r, 2)
	cfg.File.DiskCap = 2 << 20
	if cfg.File.MaxPages > 0 {
		cfg.File.DiskCap = (cfg.File.MaxPages + 128) * int(cfg.File.PageSize)
	}
	ps := int(cfg.File.PageSize)
	thorough := c.Tier == "thorough"
	g := qGen{Ops: 25 + r.Intn(35), WWrite: 45, WFlush: 10, WRBegin: 4, WRNext: 14, WRRead: 18, WRDone: 4, WAck: 12, WReopen: 1, WDrain: 3, MaxRandom: 2 * ps}
	if thorough {
		g.Ops = 40 + r.Intn(160)
	}
	prog := genQProgram(r, g, ps)
	if c.Idx%8 == 5 {
		// one ACK that frees many pages (more than any batch size an
		// implementation might use): 40-70 page sized events, flushed, read
		// and ACKed with a single call, followed by new events that re-use pages
		prog = nil
		n := 40 + r.Intn(31)
		for i := 0; i < n; i++ {
			prog = append(prog, QOp{K: QWrite, A: ps - szEventPageHeader - szEventHeader - r.Intn(3)})
			if r.Chance(1, 12) {
				prog = append(prog, QOp{K: QFlush})
			}
		}
		prog = append(prog, QOp{K: QFlush}, QOp{K: QRBegin})
		for i := 0; i < n; i++ {
			prog = append(prog, QOp{K: QRNext}, QOp{K: QRRead, A: 1 << 20})
		}
		prog = append(prog, QOp{K: QRDone}, QOp{K: QAck, A: n - r.Intn(3)})
		for i := 0; i < 6+r.Intn(10); i++ {
			prog = append(prog, QOp{K: QWrite, A: 1 + r.Intn(2*ps)})
		}
		prog = append(prog, QOp{K: QFlush})
		if cfg.File.MaxPages > 0 && cfg.File.MaxPages < n+48 {
			cfg.File.MaxPages = n + 48 + r.Intn(16)
			cfg.File.DiskCap = (cfg.File.MaxPages + 128) * int(cfg.File.PageSize)
		}
		res.Add("big_ack_histories", 1)
	}
	q := NewQWorld(cfg, QMon{Property: "C06"}, r, res)
	q.Markers = true
	q.TraceOn = c.Verbose
	if c.Idx%5 == 2 {
		// writer-ahead schedule (see filecheck C01): the sync requests of the
		// commits find all earlier writes already executed
		q.Hook = func(name string, arg int) {
			if name == "commit/before-data-sync" || name == "commit/before-meta-sync" {
				filecheck.WaitWriterIdle(q.Disk)
			}
		}
		res.Add("writer_ahead_histories", 1)
	}
	if !q.Open() {
		return res
	}
	q.Disk.Marker("qcreated", 0)
	for _, op := range prog {
		if !q.Exec(op) {
			return res
		}
	}
	if !q.CloseQueue() {
		return res
	}
	events := q.Events // final list; Close may drop unflushed tail only if it failed
	maxEventLen := 4096
	for _, e := range events {
		if len(e) > maxEventLen {
			maxEventLen = len(e)
		}
	}
	ops := q.Disk.Log()

	start := -1
	for i, op := range ops {
		if op.Kind == simdisk.OpMarker && op.Marker == "qcreated" {
			start = i
			break
		}
	}
	walker := simdisk.NewWalker(ops, ps, nil)
	flushed, acked := 0, 0
	flushedAlt, ackedAlt := -1, -1 // value after the call in progress
	// pre-scan: w-end / ack-ok values belong to the window opened before
	type win struct{ endFlushed, endAcked int }
	ends := map[int]win{}
	lastBegin := -1
	for i, op := range ops {
		if op.Kind != simdisk.OpMarker {
			continue
		}
		switch op.Marker {
		case "w-begin", "ack-begin":
			lastBegin = i
		case "w-end":
			ends[lastBegin] = win{endFlushed: int(op.Arg), endAcked: -1}
		case "ack-ok":
			ends[lastBegin] = win{endFlushed: -1, endAcked: int(op.Arg)}
		case "ack-fail":
			ends[lastBegin] = win{endFlushed: -1, endAcked: -1}
		}
	}
	fullLimit, samples := 5, 4
	if thorough {
		fullLimit, samples = 7, 12
	}
	images, boundaries := 0, 0
	sawOldInFlush, sawNewInFlush, sawOldInAck, sawNewInAck := 0, 0, 0, 0
	for !walker.Done() {
		idx := walker.Pos()
		op := walker.Step()
		if op.Kind == simdisk.OpMarker {
			switch op.Marker {
			case "w-begin":
				flushed = int(op.Arg)
				if e, ok := ends[idx]; ok && e.endFlushed != flushed {
					flushedAlt = e.endFlushed
				}
			case "w-end":
				flushed, flushedAlt = int(op.Arg), -1
			case "ack-begin":
				if e, ok := ends[idx]; ok && e.endAcked >= 0 {
					ackedAlt = e.endAcked
				}
			case "ack-ok":
				acked, ackedAlt = int(op.Arg), -1
			case "ack-fail":
				ackedAlt = -1
			}
			continue
		}
		if idx < start {
			continue
		}
		boundaries++
		n := len(walker.Pending)
		for si, sub := range subsetsQ(r, n, fullLimit, samples) {
			sub := sub
			img := walker.Image(func(i int) (bool, int) { return sub[i], -1 })
			images++
			what := fmt.Sprintf("crash at op boundary %d (pending %d, subset #%d; flushed=%d/%d acked=%d/%d)", walker.Pos(), n, si, flushed, flushedAlt, acked, ackedAlt)
			got, pending, ok := recoverQueue(c, cfg, img, res, what, images%9 == 0, maxEventLen)
			if !ok {
				res.Add("images", int64(images))
				return res
			}
			// allowed combinations
			fl := []int{flushed}
			if flushedAlt >= 0 {
				fl = append(fl, flushedAlt)
			}
			ak := []int{acked}
			if ackedAlt >= 0 {
				ak = append(ak, ackedAlt)
			}
			matched := false
			for _, f := range fl {
				for _, a := range ak {
					if a > f || f > len(events) || len(got) != f-a {
						continue
					}
					same := true
					for i := range got {
						if !bytes.Equal(got[i], events[a+i]) {
							same = false
							break
						}
					}
					if same {
						matched = true
						if pending != f-a {
							res.Violate("C06", "recovered-pending", "recovered-pending", fmt.Sprintf("%s: recovered queue delivers events [%d,%d) but Pending reports %d", what, a, f, pending), map[string]interface{}{"config": cfg})
							return res
						}
						if flushedAlt >= 0 {
							if f == flushed {
								sawOldInFlush++
							} else {
								sawNewInFlush++
							}
						}
						if ackedAlt >= 0 {
							if a == acked {
								sawOldInAck++
							} else {
								sawNewInAck++
							}
						}
					}
				}
			}
			if !matched {
				first := -1
				if len(got) > 0 {
					for i, e := range events {
						if bytes.Equal(e, got[0]) {
							first = i
							break
						}
					}
				}
				res.Violate("C06", "recovered-events", "recovered-events", fmt.Sprintf("%s: recovered queue delivers %d events starting at model event %d; allowed are events [acked,flushed) with flushed in %v and acked in %v", what, len(got), first, fl, ak),
					map[string]interface{}{"config": cfg, "trace": q.tail(40)})
				res.Add("images", int64(images))
				return res
			}
		}
	}
	res.Key = q.Key()
	res.Nontrivial = q.Completed >= 3 && images > 10
	res.Add("images", int64(images))
	res.Add("boundaries", int64(boundaries))
	res.Add("events_completed", int64(q.Completed))
	res.Add("acks", int64(q.Acks))
	res.Add("flush_window_recovered_old", int64(sawOldInFlush))
	res.Add("flush_window_recovered_new", int64(sawNewInFlush))
	res.Add("ack_window_recovered_old", int64(sawOldInAck))
	res.Add("ack_window_recovered_new", int64(sawNewInAck))
	if c.Idx%11 == 0 || c.Verbose {
		n := len(q.Trace)
		if n > 30 {
			n = 30
		}
		res.Sample = map[string]interface{}{"case": c.Idx, "config": cfg, "io_ops": len(ops), "images": images, "trace_head": q.Trace[:n]}
	}
	return res
}

func subsetsQ(r *core.Rand, n, fullLimit, samples int) [][]bool {
	var out [][]bool
	mk := func(f func(i int) bool) {
		s := make([]bool, n)
		for i := range s {
			s[i] = f(i)
		}
		out = append(out, s)
	}
	if n == 0 {
		return [][]bool{{}}
	}
	if n <= fullLimit {
		for m := 0; m < 1<<uint(n); m++ {
			mm := m
			mk(func(i int) bool { return mm&(1<<uint(i)) != 0 })
		}
		return out
	}
	mk(func(i int) bool { return false })
	mk(func(i int) bool { return true })
	for j := 0; j < n; j++ {
		jj := j
		mk(func(i int) bool { return i != jj })
		mk(func(i int) bool { return i == jj })
	}
	for s := 0; s < samples; s++ {
		mk(func(i int) bool { return r.Intn(2) == 0 })
	}
	return out
}

var _ = txfile.PageID(0)
var _ = pq.SzRoot

func init() {
	core.Register(&core.Check{
		ID:          "C06",
		Level:       "fault_enumeration",
		Rule:        "case = one PRNG producer/consumer history (streamed writes, flushes, partial reads, ACKs, reopen) on the simulated disk with every Writer call and every ACK bracketed by op-log markers carrying the flushed/ACKed totals; for EVERY I/O boundary after queue creation and lost-write subsets of the pending writes (powerset for n<=5/7, else none/all/single-dropped/single-alone/PRNG): the crash image is opened through txfile open + NewStandaloneDelegate + pq.New and drained; oracle = delivered events == model events [acked', flushed') byte-exact for an allowed pair (flushed' = total before the writer call in progress or after it, acked' = before the ACK in progress or after it; outside windows exactly one pair), Pending == flushed'-acked', every 9th image: two appended events are delivered after the old ones; distinct = history trace hash; non-trivial = >=3 events and >10 images",
		Assumptions: qAssumptions,
		NumCases:    func(t string) int { return tierN(t, 64, 400) },
		CaseTimeout: func(t string) time.Duration { return 15 * time.Minute },
		Run:         runQCrashCase,
		Finalize: func(a *core.Aggregate) error {
			for _, k := range []string{"flush_window_recovered_old", "flush_window_recovered_new", "ack_window_recovered_old", "ack_window_recovered_new"} {
				if a.Stats[k] == 0 {
					return fmt.Errorf("outcome %s never observed", k)
				}
			}
			return nil
		},
	})
}
