package pqcheck

import (
	"fmt"
	"time"

	"verif/core"
	"verif/filecheck"
	"verif/simdisk"
)

// QOpKind enumerates abstract queue operations.
type QOpKind int

const (
	QWrite QOpKind = iota
	QFlush
	QRBegin
	QRNext
	QRRead
	QRDone
	QAck
	QReopen
	QAvail
	QDrain
)

type QOp struct {
	K QOpKind `json:"k"`
	A int     `json:"a,omitempty"`
	B int     `json:"b,omitempty"`
}

// SizeTable returns the boundary sizes for a page size.
func SizeTable(ps int) []int {
	payload := ps - szEventPageHeader
	t := []int{1, 2, 3, 4, 5, 27, 28, 29}
	for _, d := range []int{-2, -1, 0, 1, 2} {
		t = append(t, payload-szEventHeader+d)   // fills one page exactly (+-)
		t = append(t, 2*payload-szEventHeader+d) // ends exactly at the end of the second page
		t = append(t, payload-2*szEventHeader+d) // leaves room for exactly one more header
		t = append(t, 3*payload-szEventHeader+d)
	}
	t = append(t, ps, ps-1, ps+1, 2*ps, 2*ps+5, 5*ps+17, payload, payload/2)
	var out []int
	for _, v := range t {
		if v >= 1 {
			out = append(out, v)
		}
	}
	return out
}

type qGen struct {
	Ops                                                                            int
	WWrite, WFlush, WRBegin, WRNext, WRRead, WRDone, WAck, WReopen, WAvail, WDrain int
	MaxRandom                                                                      int // max random event size
}

func genQProgram(r *core.Rand, g qGen, ps int) []QOp {
	table := SizeTable(ps)
	w := []int{g.WWrite, g.WFlush, g.WRBegin, g.WRNext, g.WRRead, g.WRDone, g.WAck, g.WReopen, g.WAvail, g.WDrain}
	var prog []QOp
	for i := 0; i < g.Ops; i++ {
		k := QOpKind(r.Pick(w))
		op := QOp{K: k}
		switch k {
		case QWrite:
			switch r.Intn(4) {
			case 3:
				op.A = -1 - r.Intn(4) // fill the current page up to 0..3 bytes before its end
			case 0:
				op.A = table[r.Intn(len(table))]
			case 1:
				op.A = 1 + r.Intn(200)
			default:
				op.A = 1 + r.Intn(g.MaxRandom)
			}
			switch r.Intn(4) {
			case 0:
				op.B = 0 // whole rest
			case 1:
				op.B = 1 + r.Intn(16)
			default:
				if op.A > 0 {
					op.B = 1 + r.Intn(op.A)
				}
			}
		case QRRead:
			op.A = []int{1, 3, 7, 64, ps - 28, ps, 4 * ps, 1 << 20}[r.Intn(8)]
		case QAck:
			op.A = 1 + r.Intn(6)
		}
		prog = append(prog, op)
	}
	return prog
}

// Exec executes one abstract queue op.
func (q *QWorld) Exec(op QOp) bool {
	if q.failed {
		return false
	}
	switch op.K {
	case QWrite, QFlush, QAck, QReopen:
		// one goroutine: a read transaction must not be open while a write
		// transaction commits (Commit waits for readers). The reader position
		// (also inside an event) survives Done/Begin.
		if !q.DoneRead() {
			return false
		}
	}
	switch op.K {
	case QWrite:
		return q.WriteChunk(op.A, op.B)
	case QFlush:
		if q.cur != nil {
			// finish the event first half of the time, otherwise flush in the middle of it
			if op.A%2 == 0 {
				return q.Flush()
			}
		}
		return q.Flush()
	case QRBegin:
		return q.BeginRead()
	case QRNext:
		return q.ReadNext()
	case QRRead:
		if !q.InReadTx || q.ReadOff < 0 {
			return true
		}
		return q.Read(op.A)
	case QRDone:
		return q.DoneRead()
	case QAck:
		n := op.A
		if max := q.FullyRead() - q.Acked; n > max {
			n = max
		}
		if n <= 0 {
			return true
		}
		return q.ACK(n)
	case QReopen:
		if q.UnsafeReopen {
			return true
		}
		if q.cur != nil {
			// complete the event being written first (a partial event is dropped by Close by design)
			for q.cur != nil {
				if !q.WriteChunk(0, 0) {
					return false
				}
				if q.WriteErrs+q.NextErrs > 0 && q.cur != nil {
					break
				}
			}
		}
		return q.Reopen()
	case QAvail:
		return q.checkAvailable()
	case QDrain:
		return q.Drain(1 << 20)
	}
	return true
}

// Drain reads every visible event completely.
func (q *QWorld) Drain(bufSize int) bool {
	if !q.BeginRead() {
		return false
	}
	for {
		if q.ReadOff < 0 {
			if !q.ReadNext() {
				return false
			}
			if q.ReadOff < 0 {
				break // end of queue
			}
		}
		for q.ReadOff >= 0 {
			if !q.Read(bufSize) {
				return false
			}
		}
	}
	return q.DoneRead()
}

func genQConfig(r *core.Rand, bounded int) QConfig {
	fc := filecheck.Config{PageSize: 1024, DiskCap: 8 << 20}
	if r.Chance(1, 3) {
		fc.PageSize = 4096
	}
	isBounded := bounded == 1 || (bounded == 2 && r.Chance(1, 3))
	if isBounded {
		minPages := 64 * 1024 / int(fc.PageSize)
		fc.MaxPages = minPages + []int{0, 16, 64, 192}[r.Intn(4)]
		fc.DiskCap = (fc.MaxPages + 128) * int(fc.PageSize)
		if fc.DiskCap < 1<<20 {
			fc.DiskCap = 1 << 20
		}
	}
	fc.InitMetaArea = []uint32{0, 0, 4, 16}[r.Intn(4)]
	if fc.MaxPages > 0 && int(fc.InitMetaArea) > fc.MaxPages/4 {
		fc.InitMetaArea = uint32(fc.MaxPages / 4)
	}
	fc.SyncMode = r.Intn(3)
	wb := []uint{0, uint(fc.PageSize), 4 * uint(fc.PageSize), 16 * uint(fc.PageSize), 8 * uint(fc.PageSize)}[r.Intn(5)]
	return QConfig{File: fc, WriteBuffer: wb}
}

func finishQCase(c *core.Case, q *QWorld, res *core.Result, nops int) *core.Result {
	if q.InReadTx && q.R != nil {
		// a violation may have left the reader transaction open: File.Close would wait for it forever
		rd := q.R
		q.guard("Reader.Done(cleanup)", func() { rd.Done() })
		q.InReadTx = false
	}
	if q.F != nil {
		if !q.failed && !q.AbortCase && !q.UnsafeReopen {
			// final: everything completed must be deliverable after a clean close/reopen
			if q.cur != nil {
				q.cur = nil // partial event is dropped
			}
			if q.Reopen() {
				q.Drain(1 << 16)
				if !q.failed && q.ReadPos != q.Completed {
					q.violate("final-drain", "final-drain", "after close/reopen the reader delivered events up to %d of %d", q.ReadPos, q.Completed)
				}
			}
		}
		if q.F != nil {
			f := q.F
			q.guard("File.Close(final)", func() { f.Close() })
		}
	}
	if q.failed && q.Disk.AddressSpaceExceeded {
		res.Status, res.Violations, res.Note = core.Inconclusive, nil, "simulated-address-space-exceeded"
		return res
	}
	res.Key = q.Key()
	res.Nontrivial = q.Completed >= 3 && q.Delivered >= 1
	res.Add("events_completed", int64(q.Completed))
	res.Add("events_delivered", int64(q.Delivered))
	res.Add("write_calls", int64(q.WritesOK))
	res.Add("acks", int64(q.Acks))
	res.Add("reopens", int64(q.Reopens))
	res.Add("implicit_flushes_seen", int64(q.ImplicitFlushSeen))
	res.Add("full_errors", int64(q.WriteErrs+q.NextErrs+q.FlushErrs))
	res.SetAdd("configs", fmt.Sprintf("ps=%d,max=%d,wb=%d", q.Cfg.File.PageSize, q.Cfg.File.MaxPages, q.Cfg.WriteBuffer))
	if c.Idx%89 == 0 || c.Verbose {
		n := len(q.Trace)
		if n > 40 {
			n = 40
		}
		res.Sample = map[string]interface{}{"case": c.Idx, "config": q.Cfg, "ops": nops, "trace_head": q.Trace[:n]}
	}
	return res
}

func runQueueModelCase(c *core.Case, mon QMon, tweak func(g *qGen)) *core.Result {
	res := &core.Result{}
	r := c.R
	cfg := genQConfig(r, 2)
	if c.Idx%9 == 4 {
		cfg.File.SyncMode = 3 // txfile.SyncNone
	}
	ps := int(cfg.File.PageSize)
	g := qGen{Ops: 60 + r.Intn(140), WWrite: 45, WFlush: 8, WRBegin: 6, WRNext: 16, WRRead: 22, WRDone: 5, WAck: 8, WReopen: 2, WAvail: 0, WDrain: 2, MaxRandom: 3 * ps}
	if c.Tier == "thorough" {
		g.Ops = 100 + r.Intn(900)
	}
	if cfg.File.MaxPages > 0 {
		// keep events well below the file size
		g.MaxRandom = ps
	}
	if tweak != nil {
		tweak(&g)
	}
	prog := genQProgram(r, g, ps)
	q := NewQWorld(cfg, mon, r, res)
	q.TraceOn = c.Verbose
	faulty := mon.Counters && c.Idx%5 == 4
	if q.Open() {
		if faulty {
			// bursts of failing syncs: writer calls and ACKs may fail with I/O errors
			q.Faulty = true
			q.Disk.SetFaults([]simdisk.Fault{
				{Kind: simdisk.KSync, Index: 4 + r.Intn(20), Burst: 1 + r.Intn(3)},
				{Kind: simdisk.KSync, Index: 40 + r.Intn(60), Burst: 1 + r.Intn(3)},
				{Kind: simdisk.KWrite, Index: 100 + r.Intn(300), Burst: 1, Mode: simdisk.FailBefore},
			})
		}
		for _, op := range prog {
			if !q.Exec(op) {
				break
			}
			if q.UnsafeReopen && q.cbFlushed+q.Acked > q.lastProgress {
				q.UnsafeReopen = false // a later transaction committed
			}
			q.lastProgress = q.cbFlushed + q.Acked
		}
		if faulty {
			q.Disk.ClearFaults()
			res.Add("fault_cases", 1)
			res.Add("io_errors_surfaced", int64(q.IOErrs))
			// make sure a commit succeeds before the final reopen
			if !q.failed && !q.AbortCase && q.UnsafeReopen {
				q.DoneRead()
				q.WriteChunk(10, 0)
				q.Flush()
			}
		}
	}
	return finishQCase(c, q, res, len(prog))
}

var qAssumptions = []string{
	"simulated disk semantics (DESIGN.md 3.2); queue used through its public Writer/Reader/ACK API by one goroutine (except C13)",
	"ACK is only called for events the reader has completely delivered (usage contract of the queue)",
	"held on the executions explored only",
}

func init() {
	core.Register(&core.Check{
		ID:          "C05",
		Level:       "exploration",
		Rule:        "case = PRNG program over Write chunk / Next / Flush / reader Begin/Next/Read(partial)/Done / ACK / reopen with event sizes from the boundary table (1..5, page payload-4+-2, k*payload-4+-2, page size, multi page) mixed with random sizes, 1..n Write chunks per event, page size in {1024,4096}, write buffer in {0,1,4,8,16 pages}, bounded and unbounded files; oracle = sequential queue model with unique event contents (id,len,PRNG fill): every Next size and every Read byte range must equal the model, end-of-queue only inside the flushed bracket, no phantom/duplicate/merged event, final close/reopen/drain delivers every completed event; distinct = trace hash; non-trivial = >=3 events completed and >=1 delivered",
		Assumptions: qAssumptions,
		NumCases:    func(t string) int { return tierN(t, 1500, 20000) },
		Race:        func(t string, i int) bool { return i%50 == 0 },
		Run: func(c *core.Case) *core.Result {
			return runQueueModelCase(c, QMon{Property: "C05"}, nil)
		},
		Finalize: func(a *core.Aggregate) error {
			if a.Stats["events_delivered"] == 0 || a.Stats["implicit_flushes_seen"] == 0 {
				return fmt.Errorf("no events delivered / no implicit (mid-stream) flush observed")
			}
			return nil
		},
	})

	core.Register(&core.Check{
		ID:          "C17",
		Level:       "exploration",
		Rule:        "case = the C05 programs plus Available queries; oracle after EVERY step: Pending == Active == flushed - acked where flushed is the Flushed-callback total, itself bracketed by ground truth (<= completed events, >= what the reader has delivered, == completed after a successful explicit Flush/Close, equal to the position at which a read transaction reaches the end of the queue); Reader.Available == flushed(at Begin) - consumed; ACKed callback total == ACKed events; OnQueueInit after reopen == flushed - acked; queue header page counter == data pages held; distinct = trace hash; non-trivial = >=3 events and >=1 delivered",
		Assumptions: qAssumptions,
		NumCases:    func(t string) int { return tierN(t, 1200, 30000) },
		Run: func(c *core.Case) *core.Result {
			return runQueueModelCase(c, QMon{Property: "C17", Counters: true, Space: true}, func(g *qGen) { g.WAvail = 8; g.WAck = 12; g.WReopen = 3 })
		},
		Finalize: func(a *core.Aggregate) error {
			if a.Stats["counter_checks"] == 0 || a.Stats["available_checks"] == 0 {
				return fmt.Errorf("counters never evaluated")
			}
			return nil
		},
	})
}

func tierN(tier string, quick, thorough int) int {
	if tier == "thorough" {
		return thorough
	}
	return quick
}

var _ = time.Second
