package pqcheck

import (
	"bytes"
	"encoding/binary"
	"fmt"
	"os"
	"runtime/debug"
	"sync"

	txfile "github.com/elastic/go-txfile"
	"github.com/elastic/go-txfile/pq"
	"github.com/elastic/go-txfile/txerr"

	"verif/core"
	"verif/filecheck"
	"verif/simdisk"
)

// QConfig configures a queue on a simulated disk.
type QConfig struct {
	File        filecheck.Config `json:"file"`
	WriteBuffer uint             `json:"write_buffer"`
}

// QMon selects queue level monitors.
type QMon struct {
	Property string
	Counters bool // C17: counters and callbacks
	Space    bool // C12: space bound after ACK
}

// qObserver is a thread-safe pq.Observer.
type qObserver struct {
	mu        sync.Mutex
	flushes   int
	acks      int
	reads     int
	inits     int
	lastAvail uint
}

func (o *qObserver) OnQueueInit(off uintptr, version uint32, available uint) {
	o.mu.Lock()
	o.inits++
	o.lastAvail = available
	o.mu.Unlock()
}
func (o *qObserver) OnQueueFlush(off uintptr, st pq.FlushStats) {
	o.mu.Lock()
	o.flushes++
	o.mu.Unlock()
}
func (o *qObserver) OnQueueRead(off uintptr, st pq.ReadStats) { o.mu.Lock(); o.reads++; o.mu.Unlock() }
func (o *qObserver) OnQueueACK(off uintptr, st pq.ACKStats)   { o.mu.Lock(); o.acks++; o.mu.Unlock() }

// QWorld couples a queue with its sequential model.
type QWorld struct {
	Cfg  QConfig
	Mon  QMon
	Disk *simdisk.Disk
	F    *txfile.File
	Q    *pq.Queue
	W    *pq.Writer
	R    *pq.Reader
	Res  *core.Result
	Rnd  *core.Rand
	Obs  *qObserver
	Hook txfile.VerifHook

	// model
	Events    [][]byte // completed events, in append order (index = event number since creation)
	Completed int      // == len(Events)
	FlushedLo int      // events known to be flushed (lower bound)
	Acked     int
	ReadPos   int // event index the reader is positioned at
	ReadOff   int // bytes of Events[ReadPos] already delivered (-1: event not opened by Next)
	InReadTx  bool
	Visible   int // events visible to the open read transaction (exact once learned, else -1)
	visCB     int // Flushed callback total when the read transaction began
	lay       *layout
	visLo     int // bracket for Visible while unknown
	visHi     int

	cur    []byte // planned content of the event being written
	curOff int
	evSeq  uint64

	// callback ground truth
	cbFlushed int
	cbAcked   int
	cbPages   int

	// stats
	WritesOK, WriteErrs, NextErrs, FlushErrs, Delivered, Acks, Reopens, ImplicitFlushSeen int
	failed                                                                                bool
	Trace                                                                                 []string
	TraceOn                                                                               bool
	traceHash                                                                             uint64
	Markers                                                                               bool
	Faulty                                                                                bool // a fault plan is installed on the disk: injected I/O errors are expected
	UnsafeReopen                                                                          bool // an I/O error happened and no commit succeeded since: do not reopen (C08's subject)
	IOErrs                                                                                int
	injectedSeen                                                                          int
	lastProgress                                                                          int
	AbortCase                                                                             bool // the case ended early for a reason that is no verdict
	lastACKStartPage                                                                      int
}

func NewQWorld(cfg QConfig, mon QMon, r *core.Rand, res *core.Result) *QWorld {
	q := &QWorld{Cfg: cfg, Mon: mon, Res: res, Rnd: r, Obs: &qObserver{}, ReadOff: -1, Visible: -1}
	q.Disk = simdisk.New("simdisk", cfg.File.DiskCap)
	return q
}

func (q *QWorld) prop() string { return q.Mon.Property }

func (q *QWorld) mark(name string, arg int) {
	if q.Markers {
		q.Disk.Marker(name, int64(arg))
	}
}
func (q *QWorld) Failed() bool { return q.failed }

func (q *QWorld) tracef(format string, args ...interface{}) {
	s := fmt.Sprintf(format, args...)
	q.traceHash = q.traceHash*1099511628211 ^ core.Hash64([]byte(s))
	if q.TraceOn || len(q.Trace) < 300 {
		q.Trace = append(q.Trace, s)
	}
	if q.TraceOn {
		fmt.Fprintln(os.Stderr, "TRACE", s)
	}
}

func (q *QWorld) Key() string { return fmt.Sprintf("%016x", q.traceHash) }

func (q *QWorld) tail(n int) []string {
	if len(q.Trace) <= n {
		return q.Trace
	}
	return q.Trace[len(q.Trace)-n:]
}

func (q *QWorld) violate(rule, sig, format string, args ...interface{}) bool {
	q.failed = true
	q.Res.Violate(q.prop(), rule, sig, fmt.Sprintf(format, args...), map[string]interface{}{"config": q.Cfg, "trace": q.tail(50)})
	if q.Disk != nil && q.Disk.EnvLimitHit() {
		q.Res.MarkEnvLimit()
	}
	return false
}

func (q *QWorld) guard(what string, fn func()) (panicked bool) {
	defer func() {
		if p := recover(); p != nil {
			stack := string(debug.Stack())
			panicked = true
			q.failed = true
			q.Res.Violate(q.prop(), "panic", "panic:"+core.PanicSig(p, stack), fmt.Sprintf("panic in %s: %v", what, p),
				map[string]interface{}{"config": q.Cfg, "trace": q.tail(50), "stack": core.TrimStack(stack)})
			if q.Disk != nil && q.Disk.EnvLimitHit() {
				q.Res.MarkEnvLimit()
			}
		}
	}()
	fn()
	return false
}

func kinds(err error) string {
	s := ""
	txerr.Iter(err, func(e error) bool {
		if ke, ok := e.(interface{ Kind() error }); ok && ke.Kind() != nil {
			if s != "" {
				s += ","
			}
			s += ke.Kind().Error()
		}
		return true
	})
	return s
}

// tolerated reports whether a writer/close error is one the model expects:
// no space on a bounded file, or an injected I/O error (fault cases).
func (q *QWorld) tolerated(err error) bool {
	if q.Cfg.File.MaxPages > 0 && isSpaceErr(err) {
		return true
	}
	if q.Faulty && (txerr.Is(txfile.IOError, err) || q.Disk.Injected() > q.injectedSeen) {
		q.injectedSeen = q.Disk.Injected()
		q.IOErrs++
		q.UnsafeReopen = true
		return true
	}
	return false
}

func isSpaceErr(err error) bool {
	return txerr.Is(txfile.OutOfMemory, err) || txerr.Is(txfile.NoDiskSpace, err)
}

// Open opens the file and the queue.
func (q *QWorld) Open() bool {
	opts := q.Cfg.File.Options()
	var err error
	q.Disk.Reopenable()
	if q.guard("txfile.Open", func() { q.F, err = txfile.VerifOpenWith(q.Disk, opts, q.Hook) }) {
		return false
	}
	if err != nil {
		return q.violate("open-failed", "open-failed:"+kinds(err), "file open failed: %v", err)
	}
	var d pq.Delegate
	if q.guard("NewStandaloneDelegate", func() { d, err = pq.NewStandaloneDelegate(q.F) }) {
		return false
	}
	if err != nil {
		return q.violate("delegate-failed", "delegate-failed:"+kinds(err), "NewStandaloneDelegate failed: %v", err)
	}
	settings := pq.Settings{
		WriteBuffer: q.Cfg.WriteBuffer,
		Flushed:     func(n uint) { q.cbFlushed += int(n) },
		ACKed:       func(ev, pages uint) { q.cbAcked += int(ev); q.cbPages += int(pages) },
		Observer:    q.Obs,
	}
	if q.guard("pq.New", func() { q.Q, err = pq.New(d, settings) }) {
		return false
	}
	if err != nil {
		return q.violate("queue-open-failed", "queue-open-failed:"+kinds(err), "pq.New failed: %v", err)
	}
	if q.guard("Queue.Writer", func() { q.W, err = q.Q.Writer() }) {
		return false
	}
	if err != nil {
		return q.violate("writer-failed", "writer-failed:"+kinds(err), "Queue.Writer failed: %v", err)
	}
	q.R = q.Q.Reader()
	q.ReadPos, q.ReadOff, q.InReadTx = q.Acked, -1, false
	q.tracef("open")
	return true
}

// MakeEvent creates unique event contents of length n.
func (q *QWorld) MakeEvent(n int) []byte {
	q.evSeq++
	b := make([]byte, n)
	var hdr [16]byte
	binary.LittleEndian.PutUint64(hdr[:], q.evSeq)
	binary.LittleEndian.PutUint64(hdr[8:], uint64(n))
	x := q.evSeq*0x9E3779B97F4A7C15 ^ uint64(n)*0xD1B54A32D192ED03
	for i := range b {
		if i < 16 {
			b[i] = hdr[i]
			continue
		}
		x ^= x << 13
		x ^= x >> 7
		x ^= x << 17
		b[i] = byte(x)
	}
	return b
}

// flushed returns the exact number of flushed events as reported by the Flushed callback.
func (q *QWorld) flushedCB() int { return q.cbFlushed }

// WriteChunk writes the next chunk of the current event (starting a new event
// of the given size if none is in progress). Completes the event with Next
// when all bytes have been accepted.
func (q *QWorld) WriteChunk(size, chunk int) bool {
	if q.cur == nil {
		if size < 0 {
			// end exactly at the page end (or -size-1 bytes before it)
			lay := q.layoutUpTo(q.Completed)
			room := lay.payload - lay.used
			if !lay.started {
				room = lay.payload
			}
			size = room - szEventHeader - (-size - 1)
			if size < 1 {
				size = lay.payload - szEventHeader
			}
		}
		q.cur = q.MakeEvent(size)
		q.curOff = 0
	}
	rem := len(q.cur) - q.curOff
	if chunk <= 0 || chunk > rem {
		chunk = rem
	}
	data := q.cur[q.curOff : q.curOff+chunk]
	var n int
	var err error
	before := q.cbFlushed
	q.mark("w-begin", before)
	if q.guard("Writer.Write", func() { n, err = q.W.Write(data) }) {
		return false
	}
	q.mark("w-end", q.cbFlushed)
	if err != nil {
		if q.tolerated(err) {
			if n != 0 {
				return q.violate("write-partial", "write-partial", "Write returned n=%d together with an error", n)
			}
			q.WriteErrs++
			q.tracef("write(%d) -> full (%s)", chunk, kinds(err))
			return q.afterWriterCall(before, false)
		}
		return q.violate("write-error", "write-error:"+kinds(err), "Writer.Write(%d bytes) failed: %v", chunk, err)
	}
	if n != chunk {
		return q.violate("write-short", "write-short", "Write(%d bytes) returned %d", chunk, n)
	}
	q.curOff += chunk
	q.WritesOK++
	q.tracef("write(%d) ev=%d off=%d/%d", chunk, q.Completed, q.curOff, len(q.cur))
	if !q.afterWriterCall(before, false) {
		return false
	}
	if q.curOff == len(q.cur) {
		return q.Next()
	}
	return true
}

// Next completes the current event.
func (q *QWorld) Next() bool {
	var err error
	before := q.cbFlushed
	q.mark("w-begin", before)
	if q.guard("Writer.Next", func() { err = q.W.Next() }) {
		return false
	}
	q.mark("w-end", q.cbFlushed)
	// the event is accepted, whatever the flush triggered by Next did
	q.Events = append(q.Events, q.cur)
	q.Completed++
	q.cur, q.curOff = nil, 0
	if err != nil {
		if q.tolerated(err) {
			q.NextErrs++
			q.tracef("next ev=%d -> full (%s)", q.Completed-1, kinds(err))
			return q.afterWriterCall(before, false)
		}
		return q.violate("next-error", "next-error:"+kinds(err), "Writer.Next failed: %v", err)
	}
	q.tracef("next ev=%d len=%d", q.Completed-1, len(q.Events[q.Completed-1]))
	return q.afterWriterCall(before, false)
}

// Flush flushes the write buffer explicitly.
func (q *QWorld) Flush() bool {
	var err error
	before := q.cbFlushed
	q.mark("w-begin", before)
	if q.guard("Writer.Flush", func() { err = q.W.Flush() }) {
		return false
	}
	q.mark("w-end", q.cbFlushed)
	if err != nil {
		if q.tolerated(err) {
			q.FlushErrs++
			q.tracef("flush -> full (%s)", kinds(err))
			return q.afterWriterCall(before, false)
		}
		return q.violate("flush-error", "flush-error:"+kinds(err), "Writer.Flush failed: %v", err)
	}
	q.tracef("flush ok")
	return q.afterWriterCall(before, true)
}

// afterWriterCall updates the flushed bracket. explicitOK: an explicit Flush succeeded.
func (q *QWorld) afterWriterCall(cbBefore int, explicitOK bool) bool {
	if q.cbFlushed < cbBefore {
		return q.violate("cb-flushed-backwards", "cb-flushed-backwards", "Flushed callback total went backwards")
	}
	if q.cbFlushed > q.Completed {
		return q.violate("cb-flushed-too-many", "cb-flushed-too-many", "Flushed callback reported %d events but only %d were completed", q.cbFlushed, q.Completed)
	}
	if q.cbFlushed > cbBefore && !explicitOK {
		q.ImplicitFlushSeen++
	}
	if explicitOK {
		q.FlushedLo = q.Completed
		if q.Mon.Counters && q.cbFlushed != q.Completed {
			return q.violate("cb-flushed-after-flush", "cb-flushed-after-flush", "after a successful Flush the Flushed callback total is %d, completed events %d", q.cbFlushed, q.Completed)
		}
	}
	return q.checkCounters("writer call")
}

// BeginRead starts the reader transaction.
func (q *QWorld) BeginRead() bool {
	if q.InReadTx {
		return true
	}
	var err error
	if q.guard("Reader.Begin", func() { err = q.R.Begin() }) {
		return false
	}
	if err != nil {
		return q.violate("reader-begin", "reader-begin:"+kinds(err), "Reader.Begin failed: %v", err)
	}
	q.InReadTx = true
	q.Visible = -1
	q.visCB = q.cbFlushed
	q.visLo, q.visHi = q.FlushedLo, q.Completed
	q.tracef("rbegin")
	return q.checkCounters("reader begin")
}

// DoneRead closes the reader transaction.
func (q *QWorld) DoneRead() bool {
	if !q.InReadTx {
		return true
	}
	if q.guard("Reader.Done", func() { q.R.Done() }) {
		return false
	}
	q.InReadTx = false
	q.tracef("rdone")
	return true
}

// learnVisible records that the open read transaction sees exactly v events.
func (q *QWorld) learnVisible(v int) bool {
	if q.Visible >= 0 {
		if v != q.Visible {
			return q.violate("reader-visible-changed", "reader-visible-changed", "read transaction saw the end of the queue at event %d, now at %d", q.Visible, v)
		}
		return true
	}
	if v < q.visLo || v > q.visHi {
		return q.violate("reader-end", "reader-end", "reader reports the end of the queue at event %d, but between %d and %d events are flushed", v, q.visLo, q.visHi)
	}
	q.Visible = v
	if v > q.FlushedLo {
		q.FlushedLo = v
	}
	if q.Mon.Counters && v != q.visCB {
		return q.violate("cb-flushed-vs-reader", "cb-flushed-vs-reader", "reader reaches the end of the queue at event %d but the Flushed callback total was %d when the read transaction began", v, q.visCB)
	}
	return true
}

// ReadNext advances the reader to the next event.
func (q *QWorld) ReadNext() bool {
	if !q.InReadTx && !q.BeginRead() {
		return false
	}
	var n int
	var err error
	if q.guard("Reader.Next", func() { n, err = q.R.Next() }) {
		return false
	}
	if err != nil {
		return q.violate("reader-next", "reader-next:"+kinds(err), "Reader.Next failed: %v", err)
	}
	// position after skipping the rest of a partially read event
	pos := q.ReadPos
	if q.ReadOff >= 0 {
		pos++
	}
	if n == 0 {
		q.ReadPos, q.ReadOff = pos, -1
		q.tracef("rnext -> end at %d", pos)
		return q.learnVisible(pos)
	}
	if pos >= q.Completed {
		return q.violate("reader-phantom", "reader-phantom", "reader delivers event %d of %d bytes, but only %d events were ever completed", pos, n, q.Completed)
	}
	if q.Visible >= 0 && pos >= q.Visible {
		return q.violate("reader-visible-changed", "reader-visible-changed", "read transaction saw the end of the queue at event %d, now delivers event %d", q.Visible, pos)
	}
	if n != len(q.Events[pos]) {
		return q.violate("reader-size", "reader-size", "event %d has %d bytes, reader reports %d", pos, len(q.Events[pos]), n)
	}
	if pos+1 > q.FlushedLo {
		q.FlushedLo = pos + 1
	}
	q.ReadPos, q.ReadOff = pos, 0
	q.tracef("rnext -> ev=%d len=%d", pos, n)
	return true
}

// Read reads up to n bytes of the current event.
func (q *QWorld) Read(n int) bool {
	if !q.InReadTx || q.ReadOff < 0 {
		return true
	}
	buf := make([]byte, n)
	var k int
	var err error
	if q.guard("Reader.Read", func() { k, err = q.R.Read(buf) }) {
		return false
	}
	if err != nil {
		return q.violate("reader-read", "reader-read:"+kinds(err), "Reader.Read failed: %v", err)
	}
	ev := q.Events[q.ReadPos]
	want := len(ev) - q.ReadOff
	if want > n {
		want = n
	}
	if k != want {
		return q.violate("reader-count", "reader-count", "Read(%d) of event %d at offset %d returned %d bytes, expected %d", n, q.ReadPos, q.ReadOff, k, want)
	}
	if !bytes.Equal(buf[:k], ev[q.ReadOff:q.ReadOff+k]) {
		i := 0
		for i < k && buf[i] == ev[q.ReadOff+i] {
			i++
		}
		return q.violate("reader-bytes", "reader-bytes", "event %d (len %d): bytes at offset %d differ from what was written", q.ReadPos, len(ev), q.ReadOff+i)
	}
	q.ReadOff += k
	q.tracef("read(%d) ev=%d -> %d", n, q.ReadPos, k)
	if q.ReadOff == len(ev) {
		// event complete: the reader advanced to the next event
		q.ReadPos++
		q.ReadOff = -1
		q.Delivered++
	}
	return true
}

// FullyRead returns the number of events completely delivered or skipped.
func (q *QWorld) FullyRead() int { return q.ReadPos }

// ACK acknowledges n events.
func (q *QWorld) ACK(n int) bool {
	if n <= 0 {
		return true
	}
	var err error
	q.mark("ack-begin", q.Acked+n)
	if q.guard("Queue.ACK", func() { err = q.Q.ACK(uint(n)) }) {
		return false
	}
	// "reading and ACK still succeed on the full file": a no-space error from ACK
	// is not an expected outcome, only an injected I/O error is
	if err != nil && q.Faulty && q.tolerated(err) {
		q.mark("ack-fail", q.Acked)
		q.tracef("ack(%d) -> io error (%s)", n, kinds(err))
		if q.Mon.Counters && q.cbAcked != q.Acked {
			return q.violate("cb-acked", "cb-acked-on-failure", "ACK(%d) failed but the ACKed callback total moved to %d (ACKed events %d)", n, q.cbAcked, q.Acked)
		}
		return q.checkCounters("failed ack")
	}
	if err != nil {
		q.mark("ack-fail", q.Acked)
		return q.violate("ack-error", "ack-error:"+kinds(err), "ACK(%d) failed (acked=%d, flushed>=%d): %+v", n, q.Acked, q.FlushedLo, err)
	}
	q.Acked += n
	q.Acks++
	q.mark("ack-ok", q.Acked)
	q.tracef("ack(%d) -> acked=%d", n, q.Acked)
	if q.Mon.Counters && q.cbAcked != q.Acked {
		return q.violate("cb-acked", "cb-acked", "ACKed callback total is %d but %d events were ACKed", q.cbAcked, q.Acked)
	}
	if q.Mon.Space && !q.checkSpace("ack") {
		return false
	}
	return q.checkCounters("ack")
}

// checkCounters: Pending == Active == flushed - acked, Available == flushed - consumed.
func (q *QWorld) checkCounters(after string) bool {
	if !q.Mon.Counters || q.failed {
		return !q.failed
	}
	var pend int
	var act uint
	var err1, err2 error
	if q.guard("Pending/Active", func() {
		pend, err1 = q.Q.Pending()
		act, err2 = q.Q.Active()
	}) {
		return false
	}
	if err1 != nil || err2 != nil {
		return q.violate("counter-error", "counter-error", "Pending/Active failed: %v %v", err1, err2)
	}
	want := q.cbFlushed - q.Acked
	if q.cbFlushed < q.FlushedLo || q.cbFlushed > q.Completed {
		return q.violate("cb-flushed-range", "cb-flushed-range", "after %s: Flushed callback total %d outside [%d,%d]", after, q.cbFlushed, q.FlushedLo, q.Completed)
	}
	if pend != want || int(act) != want {
		return q.violate("pending-active", "pending-active", "after %s: Pending=%d Active=%d, expected flushed(%d)-acked(%d)=%d", after, pend, act, q.cbFlushed, q.Acked, want)
	}
	q.Res.Add("counter_checks", 1)
	return true
}

// checkAvailable compares Reader.Available with flushed - consumed.
func (q *QWorld) checkAvailable() bool {
	if !q.Mon.Counters || q.failed {
		return !q.failed
	}
	opened := false
	if !q.InReadTx {
		if !q.BeginRead() {
			return false
		}
		opened = true
	}
	var av uint
	var err error
	if q.guard("Reader.Available", func() { av, err = q.R.Available() }) {
		return false
	}
	if err != nil {
		return q.violate("available-error", "available-error:"+kinds(err), "Reader.Available failed: %v", err)
	}
	consumed := q.ReadPos
	if q.ReadOff >= 0 {
		// an event that is opened but not completely read is not consumed yet
	}
	vis := q.visCB
	want := vis - consumed
	if int(av) != want {
		return q.violate("available", "available", "Reader.Available=%d, expected flushed(%d)-consumed(%d)=%d", av, vis, consumed, want)
	}
	q.Res.Add("available_checks", 1)
	if opened {
		return q.DoneRead()
	}
	return true
}

// CloseQueue closes queue and file (flushing the buffer).
func (q *QWorld) CloseQueue() bool {
	if q.InReadTx && !q.DoneRead() {
		return false
	}
	var err error
	before := q.cbFlushed
	q.mark("w-begin", before)
	if q.guard("Queue.Close", func() { err = q.Q.Close() }) {
		return false
	}
	q.mark("w-end", q.cbFlushed)
	if err != nil {
		if !q.tolerated(err) {
			return q.violate("qclose-error", "qclose-error:"+kinds(err), "Queue.Close failed: %v", err)
		}
		if !isSpaceErr(err) {
			// injected I/O error inside the closing flush: whether that flush
			// became durable is C08's subject (failed final sync); the case ends here.
			q.tracef("qclose -> io error: case ends")
			q.AbortCase = true
			f := q.F
			q.guard("File.Close", func() { f.Close() })
			q.F = nil
			return false
		}
		q.tracef("qclose -> full: unflushed events are dropped")
	} else {
		q.FlushedLo = q.Completed
	}
	_ = before
	// events not flushed are lost with the write buffer (a partially written event too)
	flushed := q.cbFlushed
	if err == nil && flushed != q.Completed && q.Mon.Counters {
		return q.violate("cb-flushed-after-close", "cb-flushed-after-close", "Queue.Close succeeded but Flushed callback total %d != completed %d", flushed, q.Completed)
	}
	if err == nil {
		flushed = q.Completed
	}
	if flushed < len(q.Events) || (q.lay != nil && len(q.lay.evStart) > flushed) {
		q.lay = nil // the layout model is rebuilt without the dropped events
	}
	q.Events = q.Events[:flushed]
	q.Completed = flushed
	q.FlushedLo = flushed
	q.cbFlushed = flushed
	q.cur, q.curOff = nil, 0
	f := q.F
	if q.guard("File.Close", func() { err = f.Close() }) {
		return false
	}
	q.F = nil
	if err != nil {
		return q.violate("fclose-error", "fclose-error", "File.Close failed: %v", err)
	}
	q.tracef("close")
	return true
}

// Reopen closes and reopens queue and file.
func (q *QWorld) Reopen() bool {
	if !q.CloseQueue() {
		return false
	}
	if !q.Open() {
		return false
	}
	q.Reopens++
	if q.Mon.Counters {
		q.Obs.mu.Lock()
		av := int(q.Obs.lastAvail)
		q.Obs.mu.Unlock()
		if av != q.Completed-q.Acked {
			return q.violate("init-available", "init-available", "OnQueueInit reports %d available events after reopen, expected %d", av, q.Completed-q.Acked)
		}
	}
	return q.checkCounters("reopen")
}

// ---- page layout model (pure function of event sizes and page size) ----

const (
	szEventPageHeader = 28
	szEventHeader     = 4
)

// layout tracks where events start in the logical page chain.
type layout struct {
	payload int
	curPage int // logical index of the page the next event header goes to
	used    int // payload bytes used in curPage
	started bool
	evStart []int // start page per event
	evEnd   []int // last page per event
}

func (l *layout) add(n int) {
	if !l.started {
		l.started = true
		l.curPage, l.used = 0, 0
	}
	if l.payload-l.used < szEventHeader {
		l.curPage++
		l.used = 0
	}
	start := l.curPage
	l.used += szEventHeader
	for n > 0 {
		room := l.payload - l.used
		if room == 0 {
			l.curPage++
			l.used = 0
			room = l.payload
		}
		k := n
		if k > room {
			k = room
		}
		l.used += k
		n -= k
	}
	l.evStart = append(l.evStart, start)
	l.evEnd = append(l.evEnd, l.curPage)
}

// heldPages computes the data pages in use from the allocator snapshot.
func heldPages(s *txfile.VerifSnapshot) int {
	metaBelow := 0
	count := func(rs []txfile.VerifRegion) {
		for _, r := range rs {
			for i := uint32(0); i < r.Count; i++ {
				if r.ID+txfile.PageID(i) < s.DataEnd {
					metaBelow++
				}
			}
		}
	}
	count(s.MetaFree)
	count(s.FreelistPages)
	count(s.WALPages)
	for _, v := range s.WALMapping {
		if v < s.DataEnd {
			metaBelow++
		}
	}
	free := 0
	for _, r := range s.DataFree {
		free += int(r.Count)
	}
	return int(s.DataEnd) - 2 - free - metaBelow
}

// checkSpace verifies the space bound after an ACK.
func (q *QWorld) checkSpace(after string) bool {
	s := q.F.VerifSnapshot()
	held := heldPages(&s)
	lay := q.layoutUpTo(q.Completed)
	tail := 0
	if len(lay.evEnd) > 0 {
		tail = lay.curPage
	}
	from := 0
	if q.Acked > 0 && q.Acked-1 < len(lay.evStart) {
		from = lay.evStart[q.Acked-1]
	}
	bound := 1 + (tail - from + 1) + 1
	if held > bound {
		return q.violate("space-bound", "space-bound", "after %s: queue holds %d pages; bound is %d (root + pages %d..%d of the chain + 1) with %d un-ACKed of %d events", after, held, bound, from, tail, q.Completed-q.Acked, q.Completed)
	}
	q.Res.Add("space_checks", 1)
	q.Res.Max("held_pages", int64(held))
	// stats and queue header agree with the allocator view
	if q.Mon.Counters {
		if inuse, ok := q.readInuse(); ok && inuse+1 != held {
			return q.violate("inuse-counter", "inuse-counter", "after %s: queue header counts %d event pages (+1 root) but the file holds %d data pages", after, inuse, held)
		}
	}
	return true
}

func (q *QWorld) layoutUpTo(n int) *layout {
	if q.lay == nil {
		q.lay = &layout{payload: int(q.Cfg.File.PageSize) - szEventPageHeader}
	}
	for len(q.lay.evStart) < n {
		q.lay.add(len(q.Events[len(q.lay.evStart)]))
	}
	return q.lay
}

// readInuse reads the page counter stored in the queue header.
func (q *QWorld) readInuse() (int, bool) {
	tx, err := q.F.BeginReadonly()
	if err != nil {
		return 0, false
	}
	defer tx.Close()
	pg, err := tx.RootPage()
	if err != nil || pg == nil {
		return 0, false
	}
	b, err := pg.Bytes()
	if err != nil || len(b) < 60 {
		return 0, false
	}
	return int(binary.LittleEndian.Uint64(b[52:])), true
}
