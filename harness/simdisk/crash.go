package simdisk

// Crash image computation from a recorded op log.
//
// A crash at boundary k (ops[0:k] have been issued, ops[k:] not) leaves on the
// durable medium: the effect of every op up to and including the last
// successful Sync before k, plus an arbitrary subset of the write/truncate
// units issued after it (page-granular; a header write - a write shorter than
// a page - may be cut at any byte). Units of the chosen subset are applied in
// issue order. A failed Sync is no barrier.

// Unit is one independently persistable piece of a pending op.
type Unit struct {
	OpSeq int
	Trunc bool
	Off   int64 // write offset, or new size for truncate
	Data  []byte
}

// IsSubPage reports whether the unit is a write shorter than a page (header write).
func (u Unit) IsSubPage(pageSize int) bool { return !u.Trunc && len(u.Data) < pageSize }

// Walker walks the op log and maintains the durable image and the pending units.
type Walker struct {
	PageSize int
	ops      []Op
	pos      int
	Durable  []byte
	Pending  []Unit
}

// NewWalker creates a walker. base is the durable image the log starts from.
func NewWalker(ops []Op, pageSize int, base []byte) *Walker {
	return &Walker{PageSize: pageSize, ops: ops, Durable: append([]byte(nil), base...)}
}

// Pos returns the number of ops processed (the current boundary).
func (w *Walker) Pos() int { return w.pos }

// Done reports whether all ops have been processed.
func (w *Walker) Done() bool { return w.pos >= len(w.ops) }

// Step processes the next op. Returns the op processed.
func (w *Walker) Step() Op {
	op := w.ops[w.pos]
	w.pos++
	switch op.Kind {
	case OpWrite:
		if len(op.Data) == 0 {
			break
		}
		ps := w.PageSize
		if len(op.Data) <= ps || ps <= 0 {
			w.Pending = append(w.Pending, Unit{OpSeq: op.Seq, Off: op.Off, Data: op.Data})
			break
		}
		// split page-granular (relative to page alignment of the offset)
		data, off := op.Data, op.Off
		for len(data) > 0 {
			n := ps - int(off%int64(ps))
			if n > len(data) {
				n = len(data)
			}
			w.Pending = append(w.Pending, Unit{OpSeq: op.Seq, Off: off, Data: data[:n]})
			data, off = data[n:], off+int64(n)
		}
	case OpTruncate:
		if op.OK || op.Arg == 1 {
			w.Pending = append(w.Pending, Unit{OpSeq: op.Seq, Trunc: true, Off: op.Off})
		}
	case OpSync:
		if op.OK {
			for _, u := range w.Pending {
				w.Durable = ApplyUnit(w.Durable, u, -1)
			}
			w.Pending = w.Pending[:0]
		}
	}
	return op
}

// ApplyUnit applies u to img. If cut >= 0 only the first cut bytes of a write are applied.
func ApplyUnit(img []byte, u Unit, cut int) []byte {
	if u.Trunc {
		sz := int(u.Off)
		if sz <= len(img) {
			return img[:sz]
		}
		return append(img, make([]byte, sz-len(img))...)
	}
	data := u.Data
	if cut >= 0 && cut < len(data) {
		data = data[:cut]
	}
	if len(data) == 0 {
		return img
	}
	end := int(u.Off) + len(data)
	if end > len(img) {
		if end <= cap(img) {
			old := len(img)
			img = img[:end]
			for i := old; i < end; i++ {
				img[i] = 0
			}
		} else {
			img = append(img, make([]byte, end-len(img))...)
		}
	}
	copy(img[u.Off:], data)
	return img
}

// Image builds the crash image for the current boundary. choose is called for
// every pending unit (index into w.Pending) and returns whether the unit is
// persisted and, for a persisted write, how many bytes of it (cut < 0: all).
func (w *Walker) Image(choose func(i int) (persist bool, cut int)) []byte {
	img := make([]byte, len(w.Durable), len(w.Durable)+len(w.Pending)*w.PageSize+w.PageSize)
	copy(img, w.Durable)
	for i, u := range w.Pending {
		ok, cut := choose(i)
		if !ok {
			continue
		}
		img = ApplyUnit(img, u, cut)
	}
	return img
}
