// Package simdisk implements a simulated disk for go-txfile (txfile.VerifFile).
//
// Semantics (assumed/trusted, see DESIGN.md §3.2):
//   - one volatile image (what the OS page cache would hold) with a fixed hard
//     capacity; WriteAt copies into it under the disk mutex;
//   - MMap returns a slice aliasing the volatile image (MAP_SHARED), so later
//     writes are visible through it; MUnmap moves the image to a fresh buffer
//     and poisons the old one, so that any use of a stale view is observable;
//   - every WriteAt/Sync/Truncate is recorded in an op log; crash images are
//     computed from the log (see crash.go);
//   - faults are injected according to a FaultPlan, counted per op kind.
package simdisk

import (
	"fmt"
	"io"
	"sync"
	"sync/atomic"

	txfile "github.com/elastic/go-txfile"
)

// Poison is the byte pattern for bytes outside of the file and for unmapped views.
const Poison = 0xDB

type OpKind uint8

const (
	OpWrite OpKind = iota + 1
	OpSync
	OpTruncate
	OpMarker
)

func (k OpKind) String() string {
	switch k {
	case OpWrite:
		return "write"
	case OpSync:
		return "sync"
	case OpTruncate:
		return "truncate"
	case OpMarker:
		return "marker"
	}
	return "?"
}

// Op is one entry in the op log.
type Op struct {
	Seq    int
	Kind   OpKind
	Off    int64  // write offset / truncate size
	Data   []byte // copy of data actually applied (write)
	OK     bool   // operation reported success (and had full effect)
	Marker string
	Arg    int64
}

// IOKind names the classes of calls faults can be injected into.
type IOKind int

const (
	KWrite IOKind = iota
	KSync
	KTruncate
	KSize
	KMMap
	KReadAt
	numKinds
)

var kindNames = [...]string{"write", "sync", "truncate", "size", "mmap", "readat"}

func (k IOKind) String() string { return kindNames[k] }

// FaultMode selects how a call fails.
type FaultMode int

const (
	FailBefore      FaultMode = iota // error, no effect
	ShortThenError                   // (write) part of the data is written, then error
	ShortNoError                     // (write) part of the data is written, n < len, no error
	FailAfterEffect                  // (truncate/sync) effect applied but error reported
)

// Fault describes a burst of failing calls of one kind.
type Fault struct {
	Kind  IOKind
	Index int // first failing call (0-based, counted per kind)
	Burst int // number of consecutive failing calls (<=0: forever)
	Mode  FaultMode
}

// IOError is the error type returned for injected faults. It reports a txfile
// compatible error kind.
type IOError struct {
	K    error
	What string
}

func (e *IOError) Error() string { return "simdisk: injected " + e.What }
func (e *IOError) Kind() error   { return e.K }

// Disk is the simulated disk.
type Disk struct {
	mu   sync.Mutex
	name string

	capacity int
	buf      []byte // len == capacity
	size     int64
	mapped   []byte
	gen      int // number of buffers ever used

	record bool
	log    []Op
	seq    int

	faults   []Fault
	counts   [numKinds]int
	injected int

	// Hook called before an I/O call is executed (without holding the disk
	// lock). Can be used to stall the caller.
	BeforeIO func(kind IOKind, index int)

	inflight int32

	MaxExtent   int64
	LockCalls   int
	UnlockCalls int
	CloseCalls  int
	locked      bool
	closed      bool
	MMapCalls   int
	MUnmapCalls int
	// AddressSpaceExceeded is set when an mmap/write was refused because of the
	// simulated capacity (an environment limit of the harness, not a fault plan).
	AddressSpaceExceeded bool
	lockOrder            []string
}

var _ txfile.VerifFile = (*Disk)(nil)

// New creates an empty disk with the given hard capacity in bytes.
func New(name string, capacity int) *Disk {
	d := &Disk{name: name, capacity: capacity, record: true}
	d.buf = d.newBuf()
	return d
}

// FromImage creates a disk holding a copy of image.
func FromImage(name string, image []byte, capacity int) *Disk {
	if capacity < len(image) {
		capacity = len(image)
	}
	d := New(name, capacity)
	copy(d.buf, image)
	d.size = int64(len(image))
	d.MaxExtent = d.size
	return d
}

func (d *Disk) newBuf() []byte {
	d.gen++
	b := make([]byte, d.capacity)
	fill(b, Poison)
	return b
}

func fill(b []byte, v byte) {
	if len(b) == 0 {
		return
	}
	b[0] = v
	for i := 1; i < len(b); i *= 2 {
		copy(b[i:], b[:i])
	}
}

// SetRecording enables/disables the op log.
func (d *Disk) SetRecording(on bool) { d.mu.Lock(); d.record = on; d.mu.Unlock() }

// SetFaults installs a new fault plan and resets the per-kind call counters.
func (d *Disk) SetFaults(f []Fault) {
	d.mu.Lock()
	d.faults = append([]Fault(nil), f...)
	d.counts = [numKinds]int{}
	d.mu.Unlock()
}

// ClearFaults removes all faults (counters keep running).
func (d *Disk) ClearFaults() { d.mu.Lock(); d.faults = nil; d.mu.Unlock() }

// Counts returns the number of calls seen per kind since the last SetFaults.
func (d *Disk) Counts() [6]int {
	d.mu.Lock()
	defer d.mu.Unlock()
	var c [6]int
	copy(c[:], d.counts[:])
	return c
}

// EnvLimitHit reports (under the disk's lock) whether an I/O call was refused
// because of the simulated capacity / address space.
func (d *Disk) EnvLimitHit() bool { d.mu.Lock(); defer d.mu.Unlock(); return d.AddressSpaceExceeded }

// Injected returns the number of faults injected so far.
func (d *Disk) Injected() int { d.mu.Lock(); defer d.mu.Unlock(); return d.injected }

// InFlight reports whether an I/O call is currently being executed.
func (d *Disk) InFlight() bool { return atomic.LoadInt32(&d.inflight) != 0 }

// enter accounts for a call of the given kind and decides whether it fails.
func (d *Disk) enter(kind IOKind) (fail bool, mode FaultMode) {
	atomic.AddInt32(&d.inflight, 1)
	d.mu.Lock()
	idx := d.counts[kind]
	d.counts[kind]++
	hook := d.BeforeIO
	for _, f := range d.faults {
		if f.Kind != kind || idx < f.Index {
			continue
		}
		if f.Burst <= 0 || idx < f.Index+f.Burst {
			fail, mode = true, f.Mode
			d.injected++
			break
		}
	}
	d.mu.Unlock()
	if hook != nil {
		hook(kind, idx)
	}
	return fail, mode
}

func (d *Disk) leave() { atomic.AddInt32(&d.inflight, -1) }

func (d *Disk) ioErr(what string) error {
	return &IOError{K: txfile.IOError, What: what}
}

func (d *Disk) appendOp(op Op) {
	if !d.record {
		return
	}
	op.Seq = d.seq
	d.seq++
	d.log = append(d.log, op)
}

// Marker appends a harness marker to the op log and returns its sequence number.
func (d *Disk) Marker(name string, arg int64) int {
	d.mu.Lock()
	defer d.mu.Unlock()
	s := d.seq
	d.appendOp(Op{Kind: OpMarker, Marker: name, Arg: arg, OK: true})
	return s
}

// Seq returns the next op sequence number.
func (d *Disk) Seq() int { d.mu.Lock(); defer d.mu.Unlock(); return d.seq }

// Log returns the recorded op log (not a copy; do not use concurrently with I/O).
func (d *Disk) Log() []Op { d.mu.Lock(); defer d.mu.Unlock(); return d.log }

// Name implements VerifFile.
func (d *Disk) Name() string { return d.name }

// Close implements VerifFile.
func (d *Disk) Close() error {
	d.mu.Lock()
	defer d.mu.Unlock()
	d.CloseCalls++
	d.closed = true
	d.lockOrder = append(d.lockOrder, "close")
	return nil
}

// Lock implements VerifFile (the path lock is modelled as a flag).
func (d *Disk) Lock(exclusive, blocking bool) error {
	d.mu.Lock()
	defer d.mu.Unlock()
	d.LockCalls++
	d.lockOrder = append(d.lockOrder, "lock")
	if d.locked {
		return &IOError{K: txfile.LockFailed, What: "lock: already locked"}
	}
	d.locked = true
	return nil
}

// Unlock implements VerifFile.
func (d *Disk) Unlock() error {
	d.mu.Lock()
	defer d.mu.Unlock()
	d.UnlockCalls++
	d.lockOrder = append(d.lockOrder, "unlock")
	if !d.locked {
		return &IOError{K: txfile.LockFailed, What: "unlock: not locked"}
	}
	d.locked = false
	return nil
}

// Locked reports whether the path lock is currently held.
func (d *Disk) Locked() bool { d.mu.Lock(); defer d.mu.Unlock(); return d.locked }

// Closed reports whether Close has been called.
func (d *Disk) Closed() bool { d.mu.Lock(); defer d.mu.Unlock(); return d.closed }

// Reopenable resets the closed flag, so the same disk can be opened again
// (contents and op log are kept).
func (d *Disk) Reopenable() {
	d.mu.Lock()
	d.closed = false
	d.mu.Unlock()
}

// Size implements VerifFile.
func (d *Disk) Size() (int64, error) {
	fail, _ := d.enter(KSize)
	defer d.leave()
	if fail {
		return -1, d.ioErr("size failure")
	}
	d.mu.Lock()
	defer d.mu.Unlock()
	return d.size, nil
}

// CurrentSize returns the file size without accounting for a call.
func (d *Disk) CurrentSize() int64 { d.mu.Lock(); defer d.mu.Unlock(); return d.size }

func (d *Disk) growTo(sz int64) {
	// bytes in [size, sz) become part of the file -> holes read as zero
	if sz > d.size {
		z := d.buf[d.size:sz]
		for i := range z {
			z[i] = 0
		}
		d.size = sz
		if sz > d.MaxExtent {
			d.MaxExtent = sz
		}
	}
}

// WriteAt implements VerifFile.
func (d *Disk) WriteAt(p []byte, off int64) (int, error) {
	fail, mode := d.enter(KWrite)
	defer d.leave()

	d.mu.Lock()
	defer d.mu.Unlock()

	if fail && mode == FailBefore {
		d.appendOp(Op{Kind: OpWrite, Off: off, OK: false})
		return 0, d.ioErr("write failure")
	}

	n := len(p)
	var err error
	if fail {
		n = len(p) / 2
		if mode == ShortThenError || n == 0 {
			err = d.ioErr("short write")
			if n == 0 && mode == ShortNoError {
				// a write of one byte can not be shortened without making no
				// progress at all -> fail it
				err = d.ioErr("short write (0 bytes)")
			}
		}
	}

	if off < 0 || off+int64(n) > int64(d.capacity) {
		// disk full
		room := int64(d.capacity) - off
		if room < 0 {
			room = 0
		}
		if int64(n) > room {
			n = int(room)
		}
		err = &IOError{K: txfile.NoDiskSpace, What: "no space left on simulated device"}
		d.AddressSpaceExceeded = true // environment limit of the harness, not an injected fault
	}

	if n > 0 {
		if off > d.size {
			d.growTo(off)
		}
		copy(d.buf[off:], p[:n])
		if end := off + int64(n); end > d.size {
			d.size = end
			if end > d.MaxExtent {
				d.MaxExtent = end
			}
		}
		if d.record {
			data := make([]byte, n)
			copy(data, p[:n])
			d.appendOp(Op{Kind: OpWrite, Off: off, Data: data, OK: err == nil})
		}
	} else if d.record {
		d.appendOp(Op{Kind: OpWrite, Off: off, OK: false})
	}
	return n, err
}

// ReadAt implements VerifFile.
func (d *Disk) ReadAt(p []byte, off int64) (int, error) {
	fail, _ := d.enter(KReadAt)
	defer d.leave()
	if fail {
		return 0, d.ioErr("read failure")
	}
	d.mu.Lock()
	defer d.mu.Unlock()
	if off >= d.size {
		return 0, io.EOF
	}
	n := copy(p, d.buf[off:d.size])
	if n < len(p) {
		return n, io.EOF
	}
	return n, nil
}

// Truncate implements VerifFile.
func (d *Disk) Truncate(sz int64) error {
	fail, mode := d.enter(KTruncate)
	defer d.leave()
	d.mu.Lock()
	defer d.mu.Unlock()

	if fail && mode != FailAfterEffect {
		d.appendOp(Op{Kind: OpTruncate, Off: sz, OK: false})
		return d.ioErr("truncate failure")
	}
	if sz < 0 {
		return d.ioErr("truncate: negative size")
	}
	if sz > int64(d.capacity) {
		d.appendOp(Op{Kind: OpTruncate, Off: sz, OK: false})
		d.AddressSpaceExceeded = true
		return &IOError{K: txfile.NoDiskSpace, What: "truncate: no space left on simulated device"}
	}
	if sz > d.size {
		d.growTo(sz)
	} else if sz < d.size {
		fill(d.buf[sz:d.size], Poison)
		d.size = sz
	}
	d.appendOp(Op{Kind: OpTruncate, Off: sz, OK: !fail, Arg: 1})
	if fail {
		return d.ioErr("truncate failure (after effect)")
	}
	return nil
}

// Sync implements VerifFile. Both sync kinds are full barriers.
func (d *Disk) Sync(dataOnly bool) error {
	fail, _ := d.enter(KSync)
	defer d.leave()
	d.mu.Lock()
	defer d.mu.Unlock()
	arg := int64(0)
	if dataOnly {
		arg = 1
	}
	if fail {
		d.appendOp(Op{Kind: OpSync, OK: false, Arg: arg})
		return d.ioErr("sync failure")
	}
	d.appendOp(Op{Kind: OpSync, OK: true, Arg: arg})
	return nil
}

// MMap implements VerifFile. The returned slice aliases the volatile image.
func (d *Disk) MMap(sz int) ([]byte, error) {
	fail, _ := d.enter(KMMap)
	defer d.leave()
	d.mu.Lock()
	defer d.mu.Unlock()
	d.MMapCalls++
	if fail {
		return nil, d.ioErr("mmap failure")
	}
	if d.mapped != nil {
		return nil, fmt.Errorf("simdisk: file is already mapped")
	}
	if sz <= 0 || sz > d.capacity {
		d.AddressSpaceExceeded = true
		return nil, &IOError{K: txfile.OSOtherError, What: fmt.Sprintf("mmap of %d bytes exceeds simulated address space %d", sz, d.capacity)}
	}
	d.mapped = d.buf[:sz:sz]
	return d.mapped, nil
}

// MUnmap implements VerifFile. The old view is poisoned.
func (d *Disk) MUnmap(b []byte) error {
	d.mu.Lock()
	defer d.mu.Unlock()
	d.MUnmapCalls++
	if len(b) == 0 && d.mapped == nil {
		// as the operating system: munmap of an empty region is EINVAL
		return &IOError{K: txfile.OSOtherError, What: "munmap of an empty region: invalid argument"}
	}
	if d.mapped == nil || len(b) == 0 || &b[0] != &d.mapped[0] {
		return fmt.Errorf("simdisk: munmap of unknown mapping")
	}
	old := d.buf
	nb := d.newBuf()
	copy(nb, old[:d.size])
	d.buf = nb
	d.mapped = nil
	fill(old, Poison)
	return nil
}

// Snapshot returns a copy of the current volatile file contents.
func (d *Disk) Snapshot() []byte {
	d.mu.Lock()
	defer d.mu.Unlock()
	out := make([]byte, d.size)
	copy(out, d.buf[:d.size])
	return out
}

// Poke overwrites bytes of the volatile image without logging (used to damage images).
func (d *Disk) Poke(off int64, data []byte) {
	d.mu.Lock()
	defer d.mu.Unlock()
	copy(d.buf[off:], data)
}

// LockOrder returns the sequence of lock/unlock/close calls seen.
func (d *Disk) LockOrder() []string {
	d.mu.Lock()
	defer d.mu.Unlock()
	return append([]string(nil), d.lockOrder...)
}

// Capacity returns the hard capacity in bytes.
func (d *Disk) Capacity() int { return d.capacity }
