// Command verifrun is the runtime-monitoring harness for go-txfile.
//
//	verifrun check <ID> [tier] [seed]   run all cases of a property check (parent)
//	verifrun worker <ID> <tier> <seed>  worker process (reads case indices on stdin)
//	verifrun case <ID> <tier> <seed> <idx>  run one case in-process, verbosely
//	verifrun replay <file>              re-run the case recorded in a replay file
//	verifrun list
package main

import (
	"encoding/json"
	"fmt"
	"os"
	"strconv"

	"verif/core"
	"verif/filecheck"
	_ "verif/pqcheck"
)

func usage() {
	fmt.Fprintln(os.Stderr, "usage: verifrun check|worker|case|replay|list ...")
	os.Exit(3)
}

func seedFrom(args []string, i int) int64 {
	s := os.Getenv("VERIF_SEED")
	if len(args) > i {
		s = args[i]
	}
	if s == "" {
		return 1
	}
	v, err := strconv.ParseInt(s, 10, 64)
	if err != nil {
		fmt.Fprintf(os.Stderr, "bad seed %q\n", s)
		os.Exit(3)
	}
	return v
}

func tierFrom(args []string, i int) string {
	t := os.Getenv("VERIF_TIER")
	if len(args) > i && args[i] != "" {
		t = args[i]
	}
	if t != "thorough" {
		t = "quick"
	}
	return t
}

func main() {
	if len(os.Args) < 2 {
		usage()
	}
	args := os.Args[2:]
	switch os.Args[1] {
	case "list":
		for _, id := range core.IDs() {
			fmt.Println(id)
		}
	case "check":
		if len(args) < 1 {
			usage()
		}
		chk := core.Lookup(args[0])
		if chk == nil {
			fmt.Fprintf(os.Stderr, "unknown check %q\n", args[0])
			os.Exit(3)
		}
		os.Exit(core.ParentMain(chk, tierFrom(args, 1), seedFrom(args, 2)))
	case "worker":
		if len(args) < 3 {
			usage()
		}
		chk := core.Lookup(args[0])
		if chk == nil {
			os.Exit(3)
		}
		core.WorkerMain(chk, args[1], seedFrom(args, 2))
	case "case":
		if len(args) < 4 {
			usage()
		}
		chk := core.Lookup(args[0])
		if chk == nil {
			os.Exit(3)
		}
		idx, _ := strconv.Atoi(args[3])
		res := core.RunCase(chk, seedFrom(args, 2), args[1], idx, true)
		b, _ := json.MarshalIndent(res, "", " ")
		fmt.Println(string(b))
		if res.Status == core.Violated {
			os.Exit(1)
		}
	case "c18helper":
		if len(args) < 1 {
			usage()
		}
		filecheck.OSLockHelperMain(args[0])
	case "replay":
		if len(args) < 1 {
			usage()
		}
		os.Exit(core.ReplayMain(args[0]))
	default:
		usage()
	}
}
