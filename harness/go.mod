module verif

go 1.21

require (
	github.com/anishathalye/porcupine v1.3.0
	github.com/elastic/go-txfile v0.0.0
	github.com/gofrs/flock v0.7.1
)

require (
	github.com/magefile/mage v1.9.0 // indirect
	github.com/urso/go-bin v0.0.0-20180220135811-781c575c9f0e // indirect
	github.com/urso/magetools v0.0.0-20190919040553-290c89e0c230 // indirect
	golang.org/x/sys v0.0.0-20200102141924-c96a22e43c9c // indirect
)

replace github.com/elastic/go-txfile => /repo
