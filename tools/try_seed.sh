#!/bin/bash
# usage: tools/try_seed.sh <ID> <variant> <check...>   runs quick checks against a scratch worktree with the seeded patch
export GOFLAGS=-mod=mod GOPROXY=off GOSUMDB=off GOTOOLCHAIN=local
id=$1; v=$2; shift 2
wt=/tmp/wt-$id$v
git -C /repo worktree remove --force $wt 2>/dev/null
git -C /repo worktree add -q --detach $wt HEAD || exit 2
(cd $wt && (git apply /tmp/seed-out/$id/$v/patch.diff || git apply --3way /tmp/seed-out/$id/$v/patch.diff)) || { echo "PATCH FAILED"; git -C /repo worktree remove --force $wt; exit 2; }
cd /verif
for chk in "$@"; do
  VERIF_REPO=$wt ./check $chk quick 2>&1 | grep -E "^C[0-9]+ |VIOLATION|KNOWN|BROKEN" | cut -c1-300 | head -6
done
git -C /repo worktree remove --force $wt
rm -rf /verif/work/alt/_tmp_wt-$id$v /verif/work/alt/_tmp_wt_$id$v
