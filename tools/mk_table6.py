#!/usr/bin/env python3
"""Prints the rows of DESIGN.md section 6 from evidence/*.json (one measured quick run per property)."""
import json, os
ROOT = os.path.dirname(os.path.dirname(os.path.abspath(__file__)))
KEYS = {
 "C01": ["images", "boundaries", "recovered_old_inside_commit_window", "recovered_new_inside_commit_window", "torn_header_fell_back", "recovery_probes", "writer_ahead_histories", "sync_commands_without_writes", "histories_with_resize_on_open", "histories_with_shrink_release_on_open", "big_transaction_histories"],
 "C02": ["commits_ok", "reader_tx", "reader_scans", "remaps", "cow_cases", "linearizable_histories", "history_ops"],
 "C03": ["commits", "page_writes", "dup_page_writes_in_one_sync_window", "writer_stalls", "max_writer_batch", "reopens"],
 "C04": ["allocs", "frees", "aborts", "regions_ge_255_seen", "shape_big-regions", "shape_fragmented-freelist"],
 "C05": ["events_completed", "write_calls", "implicit_flushes_seen", "acks", "reopens", "full_errors"],
 "C06": ["images", "boundaries", "flush_window_recovered_old", "flush_window_recovered_new", "ack_window_recovered_old", "ack_window_recovered_new", "recovery_append_probes", "writer_ahead_histories"],
 "C07": ["aborts", "twin_observations", "twin_cases", "commits"],
 "C08": ["faults_injected", "fault_write", "fault_sync", "fault_mmap", "fault_truncate", "fault_size", "fault_readat", "cases_with_surfaced_io_error", "reopened_to_failed_final_sync_attempt"],
 "C09": ["commits_ok", "commits_failed", "schedules_executed", "distinct_schedules", "deadlock_checks", "closer_cases"],
 "C10": ["reopens", "max_freelist_regions", "max_wal_entries", "regions_ge_255_seen", "shape_overflow-area"],
 "C11": ["conservation_checks", "commits", "aborts", "stats_checks"],
 "C12": ["full_conditions", "space_checks", "acks", "bulk_fill_cases", "fault_cases", "max_traffic_x_filesize"],
 "C13": ["events_consumed", "producer_full_errors", "schedules_executed", "distinct_schedules", "acks"],
 "C14": ["resize_grow", "resize_shrink", "resize_to-unbounded", "resize_from-unbounded", "second_resizes", "faulty_resize_open_failed", "faulty_resize_open_succeeded_with_injected_fault", "plain_open_after_faulty_resize", "distinct_resize_combos"],
 "C15": ["misuse_calls", "distinct_cells", "reader_beside_extending_writer"],
 "C16": ["variants", "bit_flips", "tears", "both_damaged_rejected", "wraparound_pairs", "fallback_opens_verified"],
 "C17": ["counter_checks", "available_checks", "fault_cases", "io_errors_surfaced", "reopens"],
 "C18": ["failing_opens", "distinct_failing_open_kinds", "second_open_refused", "wait_open_ordered", "lock_free_probes", "lock_held_probes"],
}
for pid in sorted(KEYS):
    p = os.path.join(ROOT, 'evidence', pid + '.json')
    if not os.path.exists(p):
        continue
    e = json.load(open(p))
    cov = e['coverage']
    obs = cov.get('observed', {})
    parts = ['%s=%s' % (k, obs[k]) for k in KEYS[pid] if k in obs]
    print('| %s | %s | %s (%s non-trivial distinct, %s inconclusive, %s under -race) | %s | %.0f s |' % (
        pid, e.get('level', ''), cov.get('evaluations'), cov.get('distinct_nontrivial'), cov.get('inconclusive'), cov.get('race_detector_cases'),
        ', '.join(parts), e.get('wall_s', 0)))
