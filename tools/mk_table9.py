#!/usr/bin/env python3
"""Prints the DESIGN.md section 9.1 table from seeded/*/meta.json."""
import json, os, glob
ROOT = os.path.dirname(os.path.dirname(os.path.abspath(__file__)))
print('| seed | needs to manifest | caught by quick check (rule) | also run, silent |')
print('|---|---|---|---|')
for d in sorted(glob.glob(os.path.join(ROOT, 'seeded', 'C*'))):
    mp = os.path.join(d, 'meta.json')
    if not os.path.exists(mp):
        continue
    m = json.load(open(mp))
    caught, silent = [], []
    for k, v in m.get('checks_run_quick', {}).items():
        if v.startswith('VIOLATION'):
            caught.append('%s %s' % (k, v[len('VIOLATION'):]))
        else:
            silent.append(k)
    print('| %s | %s | %s | %s |' % (m['id'], m['needs_to_manifest'], ', '.join(caught) or '**none**', ', '.join(silent) or '–'))
