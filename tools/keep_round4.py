#!/usr/bin/env python3
# keeps the validated round-4 seeds: python3 tools/keep_round4.py <summary-file> [names...]
import subprocess, sys
NEEDS = {
 "C01g": "pages with a committed overwrite entry; one transaction calls CheckpointWAL() and then overwrites such a page again, both writes still queued in one writer batch of more than 12 messages (unstable sort of the batch)",
 "C01h": "completely full bounded file with committed overflow-area pages past MaxSize; any write transaction (even an empty one) is rolled back or closed: the rollback truncates to the data end marker",
 "C02g": "page P with a committed overwrite entry; a write transaction calls CheckpointWAL early, then overwrites and flushes P, with a dozen more page writes in the same writer batch (unstable sort)",
 "C02h": "a reader that begins while a write transaction has allocated (and flushed) pages past the committed end of the data area, and that accesses those page ids",
 "C03g": "a commit where allocating the free-list page makes the meta area grow while the data free list from earlier commits is non-empty (alloc 10, free 4, free 1, alloc 2, overwrite 3)",
 "C03h": "a page overwritten in a committed transaction (overwrite entry), freed in a later transaction, its id re-allocated and rewritten, then accessed by a later transaction",
 "C04g": "file created with InitMetaArea == 1, then allocations and overwrites",
 "C04h": "full bounded file with free-list/overwrite pages in the overflow area; reopen with FlagUpdMaxSize and MaxSize 0; allocate more pages than the free list holds",
 "C05g": "a flush started by Next (buffer high-water mark reached exactly at an event end) fails cleanly because the bounded file is full; the producer keeps writing after the consumer ACKed",
 "C05h": "an event read with two or more Read calls where a later call's buffer is longer than the bytes left of the event",
 "C06g": "the write buffer hits its high-water mark exactly at an event end so Next starts the flush, that flush fails (file full), the producer carries on after ACKs and a later flush succeeds",
 "C06h": "one ACK that frees more than 32 pages, a crash after the first batch of frees committed and before the final cleanup transaction, then new events re-use the freed pages (or the ACK is repeated)",
 "C07g": "empty data free list; the aborted transaction allocates two new pages E,E+1 from the end of the file, frees E, allocates again (gets E back), frees E and E+1, then Rollback or Close",
 "C07h": "a one-shot I/O error inside Commit (page write or data sync); Commit fails; then any later fault-free write transaction is committed",
 "C08g": "a write transaction flushes a page early via Page.Flush or CheckpointWAL (no Tx.Flush), that asynchronous write fails once, the transaction is closed or rolled back without a commit attempt; then a fault-free commit",
 "C08h": "a transaction allocates pages from the end of the file, frees one of those fresh pages (not the last) and its commit fails on a single write or sync (or it is rolled back); a later transaction allocates",
 "C09g": "re-open with FlagUpdMaxSize and a different MaxSize plus an I/O fault at one write of an open-time maintenance transaction (the optional release transaction, or the max-size header write)",
 "C09h": "completely filled bounded file; a transaction overwrites committed pages and its Commit fails in the flush (no write-ahead page); a BeginReadonly before the next successful commit",
 "C10g": "full bounded file; an overflow-enabled transaction grows the meta area past the max size and is rolled back or fails; then close and reopen (or continue) before the next commit",
 "C10h": "bounded file whose meta area extends into the overflow area; opened with FlagUpdMaxSize and a larger max size and kept open: the in-memory data end marker is not lifted",
 "C11g": "non-empty free list; a transaction allocates a page served from it, frees that same page and is rolled back (or its commit fails)",
 "C11h": "writer B blocks in Begin while writer A allocates pages at the end of the file and commits; B then gets the lock and is rolled back (its undo snapshot was taken before the lock)",
 "C12g": "close and reopen of queue and file when the last ACKed event ended on the last byte of its page (read position exactly at a page end)",
 "C12h": "Queue.Active() or Queue.ACK() called before the first Queue.Writer(), then the file fills up once; after the consumer ACKed everything the writer keeps returning the remembered no-space error",
 "C13g": "the producer flushes a tail page an even number of times (last flush fills it), the consumer ACKs past it (page freed, stale overwrite mapping kept), the producer gets the same page id back and writes new events; the consumer follows the link",
 "C13h": "the consumer ends a read transaction while the producer's flush commit checks or waits for active readers (unsynchronised reader count)",
 "C14g": "shrink on open below the extent (live pages past the new limit are kept), then reopen with FlagUpdMaxSize, Prealloc and a limit larger than the stored one but smaller than the file's extent",
 "C14h": "bounded file reopened with FlagUpdMaxSize and a larger bounded MaxSize without Prealloc; in the same session pages past the old limit are allocated, committed and accessed later",
 "C15g": "inside one write transaction: Alloc a page, make it dirty (SetBytes or Load+MarkDirty) without flushing, then Free it",
 "C15h": "Reader.Begin (read transaction open), then Queue.Close, then Read/Next/Available on the held reader",
 "C16g": "the newest header is damaged but its txid field stays larger than the intact header's; Open falls back; the next commit overwrites the intact active header in place; a torn header write in that commit",
 "C16h": "damage of the version word (bytes 4..7) of either header that yields a version above 1 while the magic stays intact",
 "C17g": "Queue.Close() with at least one finished but unflushed event in the write buffer (the closing flush commits them but the Flushed callback is skipped), then reopen",
 "C17h": "the last flushed event spans pages and no later event starts in its final page, more than one event ever written; reopen; any flush",
 "C18g": "an Open rejected by option validation (e.g. FlagUpdMaxSize together with Readonly), then any further Open of the same path",
 "C18h": "File A open; a second Open correctly rejected with the lock error (its cleanup unlinks the lock file); a third Open of the path while A is still open",
}
summary = sys.argv[1]
only = sys.argv[2:] or sorted(NEEDS)
for name in only:
    pid, var = name[:3], name[3:]
    subprocess.call([sys.executable, '/verif/tools/keep_seed.py', pid, var, NEEDS[name], summary])
