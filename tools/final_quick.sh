#!/bin/bash
# runs every check's quick command once on /repo (seed 1), writes evidence/*.json and notes/final-quick-run.txt
cd "$(dirname "$0")/.."
out=notes/final-quick-run.txt
: > $out
ids=$(python3 -c "import json;print(' '.join(c['property_id'] for c in json.load(open('MANIFEST.json'))['checks']))")
for id in $ids; do
  o=$(VERIF_SEED=1 ./check $id quick 2>&1); rc=$?
  echo "rc=$rc $(echo "$o" | grep -E "^$id quick" | head -1)" >> $out
  echo "$o" | grep -E "^(VIOLATION|KNOWN-FINDING|BROKEN)" | cut -c1-200 >> $out
done
python3-vt tools/check_artifacts.py >> $out 2>&1
tail -1 $out
