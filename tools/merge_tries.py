#!/usr/bin/env python3
"""Merges demo/suite validation lines (validate_seed.sh without checks) with the outcomes of
`tools/try_seed.sh` runs (work/seedlogs/r3*-<seed>.txt) into summary lines for keep_seed.py.
usage: merge_tries.py <validation-file> <out-file>"""
import glob, json, os, re, sys
ROOT = os.path.dirname(os.path.dirname(os.path.abspath(__file__)))
val, out = sys.argv[1], sys.argv[2]
lines = []
for l in open(val):
    m = re.match(r'SEED (\S+) (demo_clean=\S+ suite=\S+ demo_patched=\S+) checks:(.*)', l.strip())
    if not m:
        continue
    name, head, rest = m.group(1), m.group(2), m.group(3).strip()
    results = {}
    for tok in rest.split():
        k, v = tok.split('=', 1); results[k] = v
    logs = sorted(glob.glob(os.path.join(ROOT, 'work/seedlogs', 'r[34]*-%s.txt' % name)), key=os.path.getmtime)
    def rule_of(paths):
        for rp in paths:
            try:
                return json.load(open(rp))['violation']['rule']
            except Exception:
                pass
        return ''
    for lg in logs:  # later logs override earlier ones per check
        viol = {}
        seen = []
        for ln in open(lg).read().splitlines():
            mv = re.match(r'VIOLATION property=(C\d+) replay=(\S+)', ln)
            if mv:
                viol.setdefault(mv.group(1), []).append(mv.group(2))
                continue
            ms = re.match(r'(C\d+) quick seed=\d+: .* violations=(\d+) known=', ln)
            if ms:
                chk, n = ms.group(1), int(ms.group(2))
                seen.append(chk)
                if n > 0 or chk in viol:
                    r = rule_of(viol.get(chk, []))
                    results[chk] = 'VIOLATION(%s)' % r if r else 'VIOLATION'
                else:
                    results[chk] = 'clean'
        for chk, paths in viol.items():  # summary line cut off after five violations
            if chk not in seen:
                r = rule_of(paths)
                results[chk] = 'VIOLATION(%s)' % r if r else 'VIOLATION'
    lines.append('SEED %s %s checks: %s' % (name, head, ' '.join('%s=%s' % kv for kv in sorted(results.items()))))
open(out, 'w').write('\n'.join(lines) + '\n')
print('\n'.join(lines))
