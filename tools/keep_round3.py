#!/usr/bin/env python3
# keeps the validated round-3 seeds: python3 tools/keep_round3.py <summary-file> [names...]
import subprocess, sys
NEEDS = {
 "C01e": "the committed free list holds a region of exactly 255 contiguous pages that is not the last entry of its free-list page; then reopen or crash recovery; then allocations",
 "C01f": "the meta area is exhausted exactly at the commit-time allocation of the new free-list page (not at an earlier write-ahead page allocation) while the data free list is non-empty; a later data allocation or a reopen/crash exposes it",
 "C02e": "at least two read transactions open while a Commit waits for them, and one of them closes (the committer wakes up once and does not re-check)",
 "C02f": "full bounded file without overflow area; a write transaction overwrites a committed page, a first Flush fails with OutOfMemory, the still active transaction is flushed again or committed",
 "C03e": "non-empty data free list; a transaction allocates a page from the free list and frees the still unwritten page again, then is rolled back / closed / fails at commit; later allocations hand the page out twice",
 "C03f": "file created with InitMetaArea == 1, the first data page is live, a later commit needs meta pages",
 "C04e": "a transaction that frees data pages (or releases meta pages) whose Commit fails with a write or sync error after the header write was scheduled; later allocations on the still open file",
 "C04f": "bounded file whose last pages were taken by meta-area growth from the end of the file, then a completely full data area, then a transaction with EnableOverflowArea that needs a meta page",
 "C05e": "bounded file runs full so that a flush needs two or more new pages while only some are free (file-full, no I/O fault); the consumer ACKs; the flush is retried",
 "C05f": "an I/O error (failing write or sync) during the commit of a queue flush, after which the producer retries Flush or keeps writing",
 "C06e": "bounded, almost full queue file with recycled pages; a flush needing two or more new pages fails with file-full partway through its allocations; consumer ACKs, producer retries; file fills again; restart",
 "C06f": "flush A leaves page P partly filled, flush B appends to P (P gets a write-ahead mapping), an ACK frees P while fewer than three pages are mapped, a later flush re-uses P, the page is read",
 "C07e": "bounded file with a full data area; a write transaction with EnableOverflowArea whose meta area grows into the overflow area inside that transaction; then Rollback, Close or failed Commit",
 "C07f": "the committed data free list's last region borders the end marker; the transaction allocates all free pages plus new pages from the end of the file, frees the first new page, then Rollback or Close",
 "C08e": "bounded file whose tail free region straddles a new, smaller max size; reopen with FlagUpdMaxSize; one I/O fault inside the optional open-time release transaction (its error is ignored); then allocations",
 "C08f": "file opened with Sync: SyncNone and any failing or short WriteAt during a commit",
 "C09e": "a read transaction stays open while a free/allocate-only commit (no overwritten page, no remap) completes without waiting; a second write transaction re-uses and writes the freed pages; the reader accesses them",
 "C09f": "a commit fails in its final mmap/truncate step (growing past the mapped size with a failing MMap); every later Begin/BeginReadonly returns an error and keeps the lock it took",
 "C10e": "bounded file created without InitMetaArea and filled until no data page and no meta page is free, so the header has no free-list root but a meta area; close and reopen",
 "C10f": "non-empty data free list; a write transaction whose meta-area growth is served from the data free list is rolled back or fails; any reopen point before the next allocator-updating commit",
 "C11e": "a free region of exactly 255 pages in a free list at commit time, followed by close/reopen",
 "C11f": "a commit in which the meta area must grow while the file is at its max size and the free data space is fragmented (no contiguous run), so single regions are moved to the meta area",
 "C12e": "producer and consumer in separate goroutines; a writer flush transaction is open at the moment the ACK switches from its read to its write transaction (lock-order inversion)",
 "C12f": "the queue occupies the very last page of a bounded file whose MaxSize is a multiple of the page size (data area used to the end), then that page is read",
 "C13e": "the consumer's read transaction is open and has touched the tail event page; a producer flush into that page becomes durable and waits for the consumer; the consumer reads on in the same transaction",
 "C13f": "several flushes in a row append to the same tail page while the consumer's read transaction is open during a flush whose tail page has an overwrite page and the queue header has none",
 "C14e": "bounded file whose meta area spilled into the overflow area; reopen with FlagUpdMaxSize and MaxSize 0 (unbounded); then allocations from the end of the file",
 "C14f": "shrink on open where exactly one live page past the new limit sits between two free regions (the last ending at the end marker) or between a free region and the end marker",
 "C15e": "in a write transaction: AllocN, Free one of the new pages (not the last page of the file), Tx.Page(thatID), then SetBytes/Load/MarkDirty/Flush on the handle",
 "C15f": "several events in one page, flush, an ACK ending inside that page, then ACK(n) with pending < n <= pending + already ACKed events still on the head page",
 "C16e": "the damaged header's transaction id field equals that of the intact header (single-bit flip of bit 0 of byte 32 when the newest txid is odd; zeroed header 0 of a never committed file)",
 "C16f": "a file with zero commits, reopened, plus any damage of header page 0",
 "C17e": "pages recycled by earlier ACKs; a multi-page event starts in the kept tail page and ends in a recycled page with a smaller id and is the last event of an ACK; then a new Reader (reopen)",
 "C17f": "an ACK whose last event ends exactly at a page boundary (read pointer stored with in-page offset 0)",
 "C18e": "a commit whose final mmap/truncate fails (file left unmapped), then File.Close: the failing munmap makes Close return before unlocking",
 "C18f": "two Opens of the same path that both set Options.Readonly",
}
summary = sys.argv[1]
only = sys.argv[2:] or sorted(NEEDS)
for name in only:
    pid, var = name[:3], name[3:]
    subprocess.call([sys.executable, '/verif/tools/keep_seed.py', pid, var, NEEDS[name], summary])
