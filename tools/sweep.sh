#!/bin/bash
# usage: tools/sweep.sh <tier> <seed>...   runs every check (or those in $SWEEP_IDS) with each seed, appends one line per run to notes/silence.txt
# evidence of these runs goes to work/sweep-evidence, not to evidence/
cd "$(dirname "$0")/.."
tier="$1"; shift
ids=${SWEEP_IDS:-$(python3 -c "import json;print(' '.join(c['property_id'] for c in json.load(open('MANIFEST.json'))['checks']))")}
export VERIF_EVIDENCE_DIR="$PWD/work/sweep-evidence"
for seed in "$@"; do
  for id in $ids; do
    out=$(VERIF_SEED=$seed ./check $id $tier 2>&1); rc=$?
    line=$(echo "$out" | grep -E "^$id $tier seed=" | head -1)
    echo "$(date -u +%FT%TZ) rc=$rc $line $(echo "$out" | grep -E '^(VIOLATION|KNOWN-FINDING|BROKEN)' | cut -c1-160 | tr '\n' '|')" >> notes/silence.txt
  done
done
