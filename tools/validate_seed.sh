#!/bin/bash
# usage: tools/validate_seed.sh <src-dir with patch.diff, demo*, RUN.txt> <name> "<check ids>"
# Validates a seeded defect in a scratch worktree of /repo (never in /repo itself):
#  1. demo passes on the unchanged tree
#  2. patch applies, library builds, existing suite passes with the patch
#  3. demo fails with the patch
#  4. runs the given checks against the patched tree (VERIF_REPO) and reports which fire
# Prints a summary line: SEED <name> demo_clean=<pass|fail> suite=<pass|fail> demo_patched=<pass|fail> checks: <id>=<VIOLATION|clean|...> ...
set -u
src="$1"; name="$2"; checks="${3:-}"
export GOFLAGS=-mod=mod GOPROXY=off GOSUMDB=off GOTOOLCHAIN=local
wt=/tmp/val-$name
git -C /repo worktree remove --force "$wt" >/dev/null 2>&1
git -C /repo worktree add -q --detach "$wt" HEAD || exit 3
log=/verif/work/seedlogs/$name
mkdir -p "$log"

rundemo() { # $1 = tag
  ( cd "$wt" && bash "$log/run.sh" ) >"$log/demo_$1.log" 2>&1
}

# the demo command: RUN.txt is free text; the caller provides run.sh next to the patch if RUN.txt is not directly executable
if [ -f "$src/run.sh" ]; then cp "$src/run.sh" "$log/run.sh"; else
  echo "no run.sh in $src" ; git -C /repo worktree remove --force "$wt"; exit 3
fi
export SEED_SRC="$src" SEED_WT="$wt"

rundemo clean; d0=$?
# demo files are untracked; the patch is applied plainly, or by 3-way merge if /repo moved on (hook commits) since it was written
( cd "$wt" && { git apply "$src/patch.diff" || git apply --3way "$src/patch.diff"; } && git reset -q && git diff > "$log/patch.applied.diff" ) >"$log/apply.log" 2>&1 || { echo "SEED $name patch-does-not-apply"; cat "$log/apply.log"; git -C /repo worktree remove --force "$wt"; exit 1; }
# remove demo files before the suite so that the suite is the original one
( cd "$wt" && git status --porcelain | awk '$1=="??"{print $2}' | xargs -r rm -rf )
( cd "$wt" && go build ./... && go test -vet=off -count=1 -timeout 25m ./... ) >"$log/suite.log" 2>&1; s=$?
rundemo patched; d1=$?
( cd "$wt" && git status --porcelain | awk '$1=="??"{print $2}' | xargs -r rm -rf )

res=""
for id in $checks; do
  out=$(cd /verif && VERIF_REPO="$wt" ./check "$id" quick 2>&1); rc=$?
  echo "$out" > "$log/check_$id.log"
  if echo "$out" | grep -q "^VIOLATION"; then r="VIOLATION($(echo "$out" | grep -m1 'rule=' | sed 's/.*rule=\([^ ]*\).*/\1/'))"; elif [ $rc -eq 0 ]; then r=clean; else r="rc$rc"; fi
  res="$res $id=$r"
done
p() { [ "$1" -eq 0 ] && echo pass || echo fail; }
echo "SEED $name demo_clean=$(p $d0) suite=$(p $s) demo_patched=$(p $d1) checks:$res"
git -C /repo worktree remove --force "$wt" >/dev/null 2>&1
rm -rf "/verif/work/alt/$(echo "$wt" | tr -c 'A-Za-z0-9\n' '_')"
