#!/usr/bin/env python3
"""Validates MANIFEST.json and evidence/*.json against the schemas in /root/.vp (run with python3-vt, which has jsonschema)."""
import json, glob, os, sys
import jsonschema
ROOT = os.path.dirname(os.path.dirname(os.path.abspath(__file__)))
bad = 0
def validate(path, schema_path):
    global bad
    schema = json.load(open(schema_path))
    inst = json.load(open(path))
    errs = list(jsonschema.Draft202012Validator(schema).iter_errors(inst))
    for e in errs:
        bad += 1
        print('INVALID %s: %s @ %s' % (os.path.relpath(path, ROOT), e.message[:200], list(e.absolute_path)))
    return inst
m = validate(os.path.join(ROOT, 'MANIFEST.json'), '/root/.vp/MANIFEST.schema.json')
props = [json.loads(l)['id'] for l in open(os.path.join(ROOT, 'properties.jsonl'))]
claimed = [c['property_id'] for c in m['checks']]
na = [x['property_id'] if isinstance(x, dict) else x for x in m.get('not_applicable', [])]
for p in props:
    if p not in claimed and p not in na:
        bad += 1
        print('property %s neither claimed nor not_applicable' % p)
for p in claimed:
    ep = os.path.join(ROOT, 'evidence', p + '.json')
    if not os.path.exists(ep):
        bad += 1
        print('missing evidence for', p)
        continue
    e = validate(ep, '/root/.vp/EVIDENCE.schema.json')
    cov = e.get('coverage', {})
    if e.get('property_id') != p or e.get('tier') != 'quick':
        bad += 1; print('evidence %s: property/tier mismatch (%s, %s)' % (p, e.get('property_id'), e.get('tier')))
    if cov.get('distinct_nontrivial', 0) < 2 or len(cov.get('samples', [])) < 1 or cov.get('evaluations', 0) < 2:
        bad += 1; print('evidence %s: too thin: evaluations=%s distinct_nontrivial=%s samples=%d' % (p, cov.get('evaluations'), cov.get('distinct_nontrivial'), len(cov.get('samples', []))))
    if e.get('violations', 0) != 0:
        bad += 1; print('evidence %s records %s violations' % (p, e.get('violations')))
print('checked manifest + %d evidence files: %s' % (len(claimed), 'OK' if bad == 0 else '%d problems' % bad))
sys.exit(1 if bad else 0)
