#!/usr/bin/env python3
# keeps the validated round-2 seeds: python3 work/needs2.py <summary-file>
import subprocess, sys
NEEDS = {
 "C01c": "shrink on open (FlagUpdMaxSize, smaller MaxSize) with a free region past the new limit bordering the end marker, so the optional release transaction runs; crash during that Open after its header write reached the disk but before the new free-list page did",
 "C01d": "a sync request that finds every earlier write already executed by the background writer (early Page/Tx.Flush and an append-only commit with nothing else to write, or by timing), then a crash between the header write and the data pages / before the header is durable",
 "C02c": "long-running reader; a commit that only frees and allocates (copy-on-write update, no overwrite of an existing page, fits the mapped region) returns without waiting for the reader; the next write transaction re-uses the freed pages and writes them; the reader accesses such a page",
 "C02d": "a page that overwrites committed contents is flushed twice in one transaction (early Page.Flush/Tx.Flush, then Flush or Commit) and the transaction is rolled back, or a reader is active during the commit",
 "C03c": "a write transaction whose only change is SetRoot(id) to an already existing page, then Commit",
 "C03d": "page P has an overwrite (WAL) entry from an earlier commit; a transaction calls P.Load() without modifying P and reaches the WAL limit at commit (automatic checkpoint)",
 "C04c": "one transaction allocates k>=2 pages from the end of the file and frees all of them again (first page not last), page before them not free, commit; close and reopen; allocate",
 "C04d": "non-empty data free list; a transaction allocates a page from the free list, frees the very same page again and is rolled back (Rollback, Close, failed Commit); later allocations",
 "C05c": "a partial Read of an event (k>0 bytes consumed) followed by Next while the event still has unread bytes",
 "C05d": "ACK whose last event is the last one starting in its page and extends into the following page(s), then a new reader starts from the on-disk read pointer (close and reopen before the next ACK)",
 "C06c": "queue with recycled pages (ACKs happened); a flush that needs new pages fails with an I/O error reported by Commit; the flush is retried; a later flush needs new pages",
 "C06d": "an event that ends 0-3 bytes before the end of a page; ACK exactly up to and including it, close and reopen (or crash), then read; or Next without having read that event completely",
 "C07c": "prefix with a non-empty data free list; a transaction allocates a page from the free list, frees the same page again without re-allocating it, and ends without successful commit",
 "C07d": "a write transaction flushes a dirty page early with Page.Flush(), the asynchronous write fails with an I/O error, the transaction ends with Rollback or Close; then the next (fault-free) transaction commits",
 "C08c": "bounded, almost full file; a commit schedules page writes and then runs out of space for the overwrite-map/free-list pages (OutOfMemory before the header) while one of the scheduled writes fails; then the failures stop and the next transaction commits",
 "C08d": "a commit growing the file hits a short write (0<n<page size bytes reach the file, then the error); the commit fails; the file ends with a partial page; reopen before a later commit repairs the size",
 "C09c": "File.Close called while a write transaction is open (and not committing), with a BeginReadonly issued (or the lock state inspected) before that writer finishes; also: the open writer's commit clears the pending flag Close has set",
 "C09d": "a reader is active so that a commit waits for the exclusive lock; the write transaction overwrote an already committed page; the reader accesses that page for the first time after the commit reached its wait",
 "C10c": "a commit releases meta pages from the end of the file (overflow-area pages becoming free, or after a max-size reduction), no other allocator-updating commit follows, close and reopen",
 "C10d": "bounded file opened with FlagUpdMaxSize and a larger MaxSize, no Prealloc, instance kept open; transactions allocate and write pages beyond the region mapped at open time but below the new limit",
 "C11c": "a commit that fails with an I/O error at the write or the final sync of the new file header, after all data and meta pages were written; every transaction rolled back afterwards, before the next successful commit, leaks too",
 "C11d": "a file created with a MaxSize that is not a multiple of the page size, filled up to its last page",
 "C12c": "an ACK on a file that is full to the very last page, meta area included (a fresh file filled completely by the first bulk flush: write buffer about as large as the file, page sized events)",
 "C12d": "the file-full (or any flush) error is reported by Next, not by Write (events bigger than the remaining write buffer), and the producer continues afterwards",
 "C13c": "consumer Begin (or ACK) while the producer's flush commit, which moved the data end marker, is in progress (Begin has to wait, or is preempted between taking its snapshot and taking the lock)",
 "C13d": "consumer calls ACK while a producer flush has started its write transaction but not committed yet: the flush's commit waits for the ACK's read transaction, the ACK waits for the reserved lock",
 "C14c": "an I/O error hitting exactly the header page write (or its sync) of the mandatory open-time max-size maintenance transaction while an existing file is opened with FlagUpdMaxSize",
 "C14d": "shrink on open with the last free region ending at the end marker past the new limit (release transaction runs); crash during Open after the header of that transaction reached the disk but before its free-list pages did",
 "C15c": "same transaction, same page: Load() or a partial SetBytes (page owns a buffer), then SetBytes with more than page-size bytes",
 "C15d": "a write transaction allocated pages from the end of the file (uncommitted); BeginReadonly after that and before the writer finishes; reader calls Page(id) with committed end <= id < writer's end",
 "C16c": "a file created with PageSize 1024 and any damage of header page 0 (bit flip, tear, zeroes, garbage)",
 "C16d": "the first 84 bytes of the file (header page 0) all zero while header 1 is intact",
 "C17c": "ACK of all events currently pending on disk while a producer flush commits between the ACK's read transaction and its cleanup transaction",
 "C17d": "Reader.Next while the current event has not been read completely and its unread rest continues in the next page",
 "C18c": "Close (unlock, then unlink of the lock file) interleaved with a concurrent non-waiting Open that opened <path>.lock before the unlink and locks it after the unlock, plus one more Open",
 "C18d": "Open of a path that does not exist yet whose creation fails (preallocation refused, invalid page size, write/sync error), then any further Open of the path",
}
summary = sys.argv[1]
only = sys.argv[2:] or sorted(NEEDS)
for name in only:
    pid, var = name[:3], name[3:]
    subprocess.call([sys.executable, '/verif/tools/keep_seed.py', pid, var, NEEDS[name], summary])
