#!/usr/bin/env python3
"""Derives run.sh (executed with SEED_SRC, SEED_WT set; cwd = checkout) from an agent's RUN.txt."""
import sys,re,os
d=sys.argv[1]
text=open(os.path.join(d,'RUN.txt')).read().replace('\\\n',' ')
lines=[l.strip() for l in text.split('\n') if l.strip() and not l.strip().startswith('#')]
cmd=None
for l in lines:
    if 'go test' in l or 'go run' in l or 'go build' in l:
        cmd=l; break
if cmd is None:
    print('no command found in',d); sys.exit(1)
cmd=cmd.replace('<checkout>','$SEED_WT').replace('$CHECKOUT','$SEED_WT').replace('${CHECKOUT}','$SEED_WT').replace('<CHECKOUT>','$SEED_WT')
open(os.path.join(d,'run.sh'),'w').write('set -e\nexport GOFLAGS=-mod=mod GOPROXY=off GOSUMDB=off GOTOOLCHAIN=local\ncd "$SEED_SRC"\n'+cmd+'\n')
print(d, '->', cmd[:160])
