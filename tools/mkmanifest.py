#!/usr/bin/env python3
"""Generates /verif/MANIFEST.json from the table below (single source of truth)."""
import json, os, subprocess

ROOT = os.path.dirname(os.path.dirname(os.path.abspath(__file__)))

SIM = "trusted: simulated disk semantics (DESIGN.md 3.2), the sequential reference model, read-only verif hooks; covers only the executions generated for (VERIF_SEED, tier)"

CHECKS = {
 # id: (category, technique, level text, design ref, note)
 "C04": ("exploration", "runtime monitoring: online ownership-map assertion on every allocation + partition invariant at a snapshot hook + self-identifying page contents",
         "Every page id returned by Alloc/AllocN in generated histories is checked online against a harness-side ownership map and the hooked allocator snapshot; at every quiescent point the partition {headers, live, data-free, meta-free, meta-in-use} must be pairwise disjoint; every live page carries a self-identifying stamp re-read after every transaction. Exploration over histories/configurations (bounded, unbounded, meta area, overflow area).",
         "DESIGN.md 4 (C04)", SIM),
 "C07": ("exploration", "runtime monitoring: before/after snapshot identity at a hook + model differential + reopen identity",
         "For every aborted transaction (Rollback, Close, failed Commit) in generated histories the hooked allocator/WAL/header snapshot taken before Begin must equal the one after the abort (as page sets), the readable state must equal the model, and a clean reopen must reproduce the state. Exploration over prefix histories x abort bodies x configurations.",
         "DESIGN.md 4 (C07)", SIM),
 "C10": ("exploration", "runtime monitoring: snapshot equality across close/reopen + model differential + twin observations",
         "Generated histories with reopen after ~40% of the transactions and shape generators (multi-page free lists, 255+ page regions, multi-page overwrite maps, files grown past the first mapping); the normalised hook snapshot before Close must equal the one after Open and all contents must equal the model; twin runs compare a program with interposed reopens against a never closed instance.",
         "DESIGN.md 4 (C10)", SIM),
 "C11": ("exploration", "runtime monitoring: conservation equation from an allocation probe + Observer stats vs hook snapshot + max file extent on the simulated disk",
         "Long generated histories on bounded files that never enable the overflow area; at every quiescent point allocatable(probe)+live+meta+2 == max pages, FileStats from the Observer equal harness truth, no page below the end marker is unowned, and the simulated disk's maximum extent stays within the configured size.",
         "DESIGN.md 4 (C11)", SIM),
 "C14": ("exploration", "runtime monitoring: model differential across resize-on-open + lock-state hook + allocation probe + max file extent on the simulated disk",
         "Generated prefix histories x (old max, new max, prealloc) x follow-up histories; after the resizing Open the hooked lock state must be idle (then both transaction kinds are started), contents equal the model, growth adds exactly the new pages to the probe capacity, after shrink the simulated disk's extent stays <= max(previous extent, new limit), and a later plain open reports the new limit; half of the cases resize twice, a third inject an I/O fault into the resizing Open (the File it returns is used, then a plain open must already report the new limit); grows also start from files whose meta area spilled into the overflow area.",
         "DESIGN.md 4 (C14)", SIM),
 "C15": ("exploration", "runtime monitoring: exhaustive method x lifecycle-state matrix executed under recover() with a model oracle before/after",
         "The finite matrix of invalid calls (Tx, Page and queue methods x receiver states) is enumerated completely; each cell runs after sampled PRNG prefix histories under recover(); oracle: no panic, returns, documented error kind, transaction view and committed state unchanged (model differential, continuing+committing, reopen). Includes read-only transactions begun beside a writer that extended the file, pages allocated+freed+re-fetched in one transaction, and queue calls after a Close whose flush failed. Exhaustive over cells, sampled over prefixes.",
         "DESIGN.md 4 (C15), Appendix A", SIM),
 "C08": ("fault_enumeration", "runtime monitoring: fault-plan injection on the simulated disk + model oracle after every transaction + lock-state hook + reopen rule computed from the op log",
         "Each case injects one fault plan (kind x call index from a dry run x burst x mode) into a generated history; monitors: no panic, Commit==nil implies no failed write/sync in its window, read transactions keep seeing the last successful commit, locks idle, failed Open releases the path lock, fresh transactions commit once faults stop, reopen shows the last success or the attempt whose only failure was its final sync; the allocator still partitions the file after every transaction; an I/O error must stem from an I/O call that failed while the transaction was open; every 7th case uses SyncNone; after a failed remap transactions and Close must not leak locks. Sampled (quick) to near-complete per short history (thorough) enumeration of call indices.",
         "DESIGN.md 4 (C08)", SIM + "; two genuine defects are recorded in known_findings.json (post-durable remap failure, recycled pages of a failed-final-sync attempt) and reported as KNOWN-FINDING"),
 "C01": ("fault_enumeration", "runtime monitoring: offline crash-image recovery oracle over the recorded I/O log of the simulated disk (every I/O boundary x lost-write subsets x torn header cuts), images reopened through the real open path",
         "For each generated history every I/O boundary of the recorded op log is crashed: durable prefix + subsets of the writes pending since the last successful sync (complete powerset for small n, structured + PRNG subsets beyond), header writes torn at byte cuts; every image is opened by the real code and must recover to the last successful commit or the commit in progress, byte-exact against the recorded model state, with a sane allocator and working follow-up transactions. Includes histories whose transactions exceed the writer batch buffer (sampled boundaries), resize-on-open histories with their maintenance transactions, and a writer-ahead schedule in which sync requests find an empty writer queue.",
         "DESIGN.md 4 (C01)", SIM),
 "C16": ("fault_enumeration", "runtime monitoring: complete bit-flip / tear / garbage sweeps of both header slots of real images, reopened through the real open path, judged by an independent header validator",
         "Images taken at commit boundaries of generated histories and of never committed files; the untouched older slot must itself be a valid header; for both slots all 672 single-bit flips, all 83 prefix tears, zero/garbage/random damage, slot copies, both slots damaged and txid wrap-around pairs are opened by the real code; the harness' own header validation decides the required winner; contents must equal the recorded state of that txid; no panic.",
         "DESIGN.md 4 (C16)", SIM),
 "C02": ("exploration", "runtime monitoring: stamped-snapshot oracle in concurrent readers + porcupine linearizability check of the begin/commit history + Go race detector over a simulated (aliasing, poisoned-on-unmap) mmap, with yields injected at commit hook points",
         "Free-running 1 writer (overwriting or copy-on-write: free+allocate+new root) x 1-4 readers under the race detector; every page carries (page, commit seq), readers verify the complete version vector of the state named by the root page twice per transaction; states of aborted/failed transactions and poisoned (unmapped) memory are violations; the begin/commit history is checked with porcupine; evidence lists the (reader event @ writer commit point) pairs observed. Sampled interleavings, not enumerated.",
         "DESIGN.md 4 (C02)", SIM + "; Go race detector; porcupine v1.3.0"),
 "C09": ("exploration", "runtime monitoring: Go race detector + writer-count monitor on hook events + lock-state hook at quiescent points + state-based deadlock detector over N readers x M writers x Close stress; plus a cooperative scheduler enumerating preemption-bounded schedules of small actor sets on the real code",
         "Free-running N readers x M writers (commit/rollback/close/failing commit) plus a concurrent File.Close and open-time max-size updates, always under the race detector with an Observer; monitors: at most one active writer (hook events), lock state idle when no transaction is open, deadlock declared only from state facts (no progress, all workers parked on go-txfile locks), any race report is a violation. Every 4th case is a strict cooperative scheduler run: actor sets {readers, writers, closer} stepped one at a time at API boundaries and lock-adjacent hook points, would-block predicates attached to lock-level hook points and evaluated on the hooked lock state, lock-state invariants at every decision point (readers only blocked by a commit or by Close holding the reserved lock; Close holds the pending lock when it unmaps), all schedules with a bounded number of preemptions enumerated depth-first (deadlock = no enabled actor).",
         "DESIGN.md 4 (C09)", SIM + "; Go race detector"),
 "C18": ("exploration", "runtime monitoring on the real OS file system: independent flock probes + logical-clock ordering of waiting opens + strace syscall fault injection (thorough)",
         "Generated open/second-open/waiting-open/failing-open/close sequences on real temp files; an independent flock probe decides whether the path lock is held or free after every step; failing opens cover invalid options, damaged/truncated files, out-of-range meta roots, size errors and failing creations of new files; opens vary Readonly/SyncData; the thorough tier adds helper processes with pwrite/fsync/mmap/ftruncate/fstat/openat failures injected by strace during initialisation.",
         "DESIGN.md 4 (C18)", "trusted: advisory flock semantics of the sandbox file system; strace injection may hit the Go runtime (then inconclusive)"),
 "C05": ("exploration", "runtime monitoring: model-based differential execution of the queue through its public Writer/Reader/ACK API with unique event contents (+race detector slice)",
         "Generated programs (boundary-size table, streamed writes, partial reads, flush timings, ACKs, reopen; page and buffer sizes) run against a sequential event-list model; every Next size and Read byte range is compared, end-of-queue must lie in the flushed bracket, final close/reopen/drain delivers every completed event.",
         "DESIGN.md 5 (C05)", SIM),
 "C12": ("exploration", "runtime monitoring: fill-to-error/drain cycles on small bounded simulated disks with the event model as oracle and a space bound evaluated on the allocator snapshot hook after every ACK",
         "Producer/consumer histories pushing >=12x (quick) / 60x (thorough) the file size through bounded files; only space errors allowed, nothing lost or reordered, reading+ACK succeed on the full file, after every ACK held pages <= root + chain pages from the last ACKed event's start page to the tail + 1, pending chunks/flushes succeed after a drain; every 5th case adds failing syncs (flush failing in Commit must be retried cleanly); a quarter of the cases fill a fresh file to the last page before the first ACK (a no-space error from ACK is a violation).",
         "DESIGN.md 5 (C12)", SIM),
 "C17": ("exploration", "runtime monitoring: counter/callback oracle evaluated after every step of model-driven queue programs",
         "After every step of generated producer/consumer/reopen programs Pending == Active == flushed - acked, Reader.Available == flushed(at Begin) - consumed, Flushed/ACKed callback totals equal the model's totals (bracketed by what explicit flushes and the reader prove), OnQueueInit after reopen, queue header page counter == pages held; every 5th case injects I/O errors into flush/ACK transactions (a failed call moves no counter and fires no callback).",
         "DESIGN.md 5 (C17)", SIM),
 "C06": ("fault_enumeration", "runtime monitoring: offline crash-image recovery oracle at queue level over the recorded I/O log (every I/O boundary x lost-write subsets), images reopened through txfile open + delegate + pq.New and drained",
         "Producer/consumer histories recorded on the simulated disk with every Writer call and ACK bracketed by markers carrying flushed/ACKed totals; every I/O boundary after queue creation is crashed with lost-write subsets; the recovered queue must deliver exactly events [acked', flushed') for an allowed pair (before/after the call in progress, all-or-nothing), report the matching Pending, and accept+deliver appended events.",
         "DESIGN.md 5 (C06)", SIM),
 "C13": ("exploration", "runtime monitoring: consumer-side FIFO oracle with independently computable event contents + Go race detector + state-based deadlock detector, yields injected at commit hook points of flush and ACK transactions",
         "Free-running producer and consumer goroutines on one queue under the race detector (unbounded and nearly-full bounded files; every 8th case holds the consumer back until the producer hit the full condition); consumer must receive exactly events 0,1,2,... byte-identical, every ACK must succeed, everything arrives after the final flush, Pending==0 and callback totals ==N at the end; evidence lists the (actor step @ other actor's commit point) pairs observed. Every 4th case enumerates preemption-bounded schedules of a producer actor and a consumer actor (read transaction kept open across yield points, ACK batches) with the cooperative scheduler.",
         "DESIGN.md 5 (C13)", SIM + "; Go race detector"),
 "C03": ("exploration", "runtime monitoring: model-based differential execution on a simulated disk with controlled writer stalls (+race detector slice)",
         "Real txfile code is driven by PRNG-generated transaction programs on a simulated disk; a sequential page model is compared in a read transaction after every transaction end, on every in-transaction read and after reopen, while a gate stalls the background writer so that several transactions' page writes share one writer batch. Held-on-explored-executions assurance; right level because the property quantifies over histories and writer timings that cannot be enumerated.",
         "DESIGN.md 4 (C03)", SIM),
}

NOT_YET = {}

def main():
    ids = [json.loads(l)["id"] for l in open(os.path.join(ROOT, "properties.jsonl"))]
    try:
        hooks = subprocess.check_output(["git", "-C", "/repo", "log", "--format=%H", "--grep=^verif:"], text=True).split()
    except Exception:
        hooks = []
    m = {
        "version": 1,
        "setup_cmd": "./check build",
        "hooks": {
            "guard": "verif (Go build tag)",
            "enable": "go build -tags verif (done by ./check; harness module replaces github.com/elastic/go-txfile with /repo)",
            "baseline_off_cmd": "cd /repo && GOFLAGS=-mod=mod GOPROXY=off GOSUMDB=off GOTOOLCHAIN=local go test -vet=off -count=1 -timeout 25m ./...",
            "source_commits": hooks,
            "add_only": True,
        },
        "engines": [
            {"name": "verifrun", "path": "harness/cmd/verifrun", "serves_properties": sorted(CHECKS),
             "kind_free_text": "Go harness: simulated disk (op log, crash images, fault plans, stall gates, poisoned mmap views), sequential reference models, monitors over hooked state, parent/worker runner with race-detector workers"},
        ],
        "checks": [],
        "not_applicable": [],
        "notes": "Technique family: runtime monitoring and sanitizers. ./check <ID> <tier> rebuilds the harness against /repo's working tree with -tags verif (plain and -race binaries) and runs the check; cases are a pure function of (VERIF_SEED, tier, index). Known/fixed findings: known_findings.json.",
    }
    for pid in ids:
        if pid in CHECKS:
            cat, tech, text, ref, note = CHECKS[pid]
            m["checks"].append({
                "property_id": pid,
                "quick_cmd": f"./check {pid} quick",
                "thorough_cmd": f"./check {pid} thorough",
                "evidence_file": f"/verif/evidence/{pid}.json",
                "replay_cmd_template": "./check replay {path}",
                "engine": "verifrun",
                "level_claimed": {"category": cat, "text": text, "design_ref": ref},
                "level_note": note,
                "technique": tech,
            })
        else:
            m["not_applicable"].append({"property_id": pid, "reason": NOT_YET.get(pid, "check not built yet in this round (work in progress; the technique family applies, see DESIGN.md)")})
    json.dump(m, open(os.path.join(ROOT, "MANIFEST.json"), "w"), indent=1)
    print("wrote MANIFEST.json with", len(m["checks"]), "checks")

if __name__ == "__main__":
    main()
