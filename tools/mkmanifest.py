#!/usr/bin/env python3
"""Generates /verif/MANIFEST.json from the table below (single source of truth)."""
import json, os, subprocess

ROOT = os.path.dirname(os.path.dirname(os.path.abspath(__file__)))

SIM = "trusted: simulated disk semantics (DESIGN.md 3.2), the sequential reference model, read-only verif hooks; covers only the executions generated for (VERIF_SEED, tier)"

CHECKS = {
 # id: (category, technique, level text, design ref, note)
 "C03": ("exploration", "runtime monitoring: model-based differential execution on a simulated disk with controlled writer stalls (+race detector slice)",
         "Real txfile code is driven by PRNG-generated transaction programs on a simulated disk; a sequential page model is compared in a read transaction after every transaction end, on every in-transaction read and after reopen, while a gate stalls the background writer so that several transactions' page writes share one writer batch. Held-on-explored-executions assurance; right level because the property quantifies over histories and writer timings that cannot be enumerated.",
         "DESIGN.md 4 (C03)", SIM),
}

NOT_YET = {}

def main():
    ids = [json.loads(l)["id"] for l in open(os.path.join(ROOT, "properties.jsonl"))]
    try:
        hooks = subprocess.check_output(["git", "-C", "/repo", "log", "--format=%H", "--grep=^verif:"], text=True).split()
    except Exception:
        hooks = []
    m = {
        "version": 1,
        "setup_cmd": "./check build",
        "hooks": {
            "guard": "verif (Go build tag)",
            "enable": "go build -tags verif (done by ./check; harness module replaces github.com/elastic/go-txfile with /repo)",
            "baseline_off_cmd": "cd /repo && GOFLAGS=-mod=mod GOPROXY=off GOSUMDB=off GOTOOLCHAIN=local go test -vet=off -count=1 -timeout 25m ./...",
            "source_commits": hooks,
            "add_only": True,
        },
        "engines": [
            {"name": "verifrun", "path": "harness/cmd/verifrun", "serves_properties": sorted(CHECKS),
             "kind_free_text": "Go harness: simulated disk (op log, crash images, fault plans, stall gates, poisoned mmap views), sequential reference models, monitors over hooked state, parent/worker runner with race-detector workers"},
        ],
        "checks": [],
        "not_applicable": [],
        "notes": "Technique family: runtime monitoring and sanitizers. ./check <ID> <tier> rebuilds the harness against /repo's working tree with -tags verif (plain and -race binaries) and runs the check; cases are a pure function of (VERIF_SEED, tier, index). Known/fixed findings: known_findings.json.",
    }
    for pid in ids:
        if pid in CHECKS:
            cat, tech, text, ref, note = CHECKS[pid]
            m["checks"].append({
                "property_id": pid,
                "quick_cmd": f"./check {pid} quick",
                "thorough_cmd": f"./check {pid} thorough",
                "evidence_file": f"/verif/evidence/{pid}.json",
                "replay_cmd_template": "./check replay {path}",
                "engine": "verifrun",
                "level_claimed": {"category": cat, "text": text, "design_ref": ref},
                "level_note": note,
                "technique": tech,
            })
        else:
            m["not_applicable"].append({"property_id": pid, "reason": NOT_YET.get(pid, "check not built yet in this round (work in progress; the technique family applies, see DESIGN.md)")})
    json.dump(m, open(os.path.join(ROOT, "MANIFEST.json"), "w"), indent=1)
    print("wrote MANIFEST.json with", len(m["checks"]), "checks")

if __name__ == "__main__":
    main()
