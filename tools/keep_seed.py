#!/usr/bin/env python3
"""Copies a validated seeded change from /tmp/seed-out/<ID>/<v> to /verif/seeded/<ID><v>/ and writes meta.json.

usage: keep_seed.py <ID> <variant> "<needs / trigger>" [summary-file]
The validation summary line (tools/validate_seed.sh) for <ID><variant> is read from work/seedlogs/summary.txt.
"""
import json, os, re, shutil, sys

ROOT = os.path.dirname(os.path.dirname(os.path.abspath(__file__)))

def main():
    pid, var, needs = sys.argv[1], sys.argv[2], sys.argv[3]
    summary = sys.argv[4] if len(sys.argv) > 4 else os.path.join(ROOT, 'work/seedlogs/summary.txt')
    name = pid + var
    line = None
    for l in open(summary):
        if l.startswith('SEED %s ' % name):
            line = l.strip()
    if line is None:
        sys.exit('no validation line for ' + name)
    src = '/tmp/seed-out/%s/%s' % (pid, var)
    dst = os.path.join(ROOT, 'seeded', name)
    os.makedirs(dst, exist_ok=True)
    for f in os.listdir(src):
        if f.endswith(('.diff', '.go', '.txt', '.md', '.sh')):
            shutil.copy(os.path.join(src, f), os.path.join(dst, f))
    # the patch as it applied to /repo's HEAD at validation time (3-way merged if /repo moved on)
    applied = os.path.join(ROOT, 'work/seedlogs', name, 'patch.applied.diff')
    if os.path.exists(applied) and os.path.getsize(applied) > 0:
        shutil.copy(applied, os.path.join(dst, 'patch.diff'))
    m = re.match(r'SEED \S+ demo_clean=(\S+) suite=(\S+) demo_patched=(\S+) checks:(.*)', line)
    checks = {}
    for tok in m.group(4).split():
        k, v = tok.split('=', 1)
        checks[k] = v
    caught = [k for k, v in checks.items() if v.startswith('VIOLATION')]
    meta = {
        'id': name,
        'property': pid,
        'written_by': 'fresh sub-agent given only the property text and a scratch worktree',
        'needs_to_manifest': needs,
        'validation': {
            'demo_on_unchanged_tree': m.group(1),
            'existing_suite_with_patch': m.group(2),
            'demo_with_patch': 'fails' if m.group(3) == 'fail' else m.group(3),
            'how': 'tools/validate_seed.sh: scratch worktree of /repo HEAD; demo run on clean tree; git apply patch.diff; go build + full go test ./... (tag off); demo run again',
        },
        'checks_run_quick': checks,
        'caught_by': caught,
        'ran': ['VERIF_REPO=<scratch worktree with patch.diff applied> ./check %s quick' % k for k in checks],
    }
    json.dump(meta, open(os.path.join(dst, 'meta.json'), 'w'), indent=1)
    print(name, 'caught_by', caught, checks)

if __name__ == '__main__':
    main()
